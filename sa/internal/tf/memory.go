package tf

import (
	"go/types"

	"golang.org/x/tools/go/ssa"
)

// pathElem is one step of an access path inside a tracked object: a struct field or an index.
type pathElem struct {
	field string    // non-empty for fields
	index ssa.Value // for indices (evaluated lazily)
	user  *ssa.BasicBlock
	idxT  *Term // pre-evaluated index term (phase 2 / queries)
}

type storeRec struct {
	obj   ssa.Value // *ssa.Alloc or *ssa.MakeSlice
	path  []pathElem
	val   ssa.Value
	instr *ssa.Store
}

type storeIndex struct {
	byObj    map[ssa.Value][]*storeRec
	deferred []*ssa.Store // stores whose address needs term evaluation (phase 2)
	phase2   bool
	building bool
	escaped  map[ssa.Value]bool
}

// resolveSyntactic walks FieldAddr/IndexAddr/Slice chains down to an Alloc or MakeSlice without evaluating loads.
func resolveSyntactic(addr ssa.Value) (obj ssa.Value, path []pathElem, ok bool) {
	switch a := addr.(type) {
	case *ssa.Alloc:
		return a, nil, true
	case *ssa.MakeSlice:
		return a, nil, true
	case *ssa.FieldAddr:
		o, p, ok := resolveSyntactic(a.X)
		if !ok {
			return nil, nil, false
		}
		return o, append(append([]pathElem{}, p...), pathElem{field: fieldName(a.X.Type(), a.Field)}), true
	case *ssa.IndexAddr:
		o, p, ok := resolveSyntactic(a.X)
		if !ok {
			return nil, nil, false
		}
		return o, append(append([]pathElem{}, p...), pathElem{index: a.Index, user: a.Block()}), true
	case *ssa.Slice:
		if a.Low == nil && a.High == nil {
			return resolveSyntactic(a.X)
		}
	}
	return nil, nil, false
}

// resolveAddr resolves an address to (object, path), using term evaluation for bases that are loaded slices
// (e.g. s.F[i] where the cell s.F holds a make()).
func (ev *Eval) resolveAddr(addr ssa.Value) (obj ssa.Value, path []pathElem, ok bool) {
	if o, p, ok := resolveSyntactic(addr); ok {
		return o, p, true
	}
	switch a := addr.(type) {
	case *ssa.IndexAddr:
		base := ev.op(a.X, a)
		if base.K == KMake {
			if o, ok := ev.E.objBySerial[base.N]; ok {
				return o, []pathElem{{index: a.Index, user: a.Block()}}, true
			}
		}
	case *ssa.FieldAddr:
		if o, p, ok := ev.resolveAddr(a.X); ok {
			return o, append(append([]pathElem{}, p...), pathElem{field: fieldName(a.X.Type(), a.Field)}), true
		}
	}
	return nil, nil, false
}

func (ev *Eval) index() *storeIndex {
	if ev.stores != nil {
		return ev.stores
	}
	si := &storeIndex{byObj: map[ssa.Value][]*storeRec{}, escaped: map[ssa.Value]bool{}}
	ev.stores = si
	for _, b := range ev.Fn.Blocks {
		for _, in := range b.Instrs {
			st, ok := in.(*ssa.Store)
			if !ok {
				continue
			}
			if o, p, ok := resolveSyntactic(st.Addr); ok {
				si.byObj[o] = append(si.byObj[o], &storeRec{obj: o, path: p, val: st.Val, instr: st})
			} else {
				si.deferred = append(si.deferred, st)
			}
		}
	}
	return si
}

// phase2 resolves the stores whose address goes through a loaded slice.
func (ev *Eval) phase2() {
	si := ev.index()
	if si.phase2 || si.building {
		return
	}
	si.building = true
	for _, st := range si.deferred {
		if o, p, ok := ev.resolveAddr(st.Addr); ok {
			si.byObj[o] = append(si.byObj[o], &storeRec{obj: o, path: p, val: st.Val, instr: st})
		}
	}
	si.building = false
	si.phase2 = true
}

func (ev *Eval) pathTerm(pe *pathElem) *Term {
	if pe.idxT == nil && pe.index != nil {
		pe.idxT = ev.opIn(pe.index, pe.user)
	}
	return pe.idxT
}

func (ev *Eval) samePath(a, b []pathElem) bool {
	if len(a) != len(b) {
		return false
	}
	for i := range a {
		if a[i].field != b[i].field {
			return false
		}
		if a[i].field == "" {
			ta, tb := ev.pathTerm(&a[i]), ev.pathTerm(&b[i])
			if ta == nil || tb == nil || ta.Key() != tb.Key() {
				return false
			}
		}
	}
	return true
}

// applyPath projects a value term along the remaining access path.
func (ev *Eval) applyPath(t *Term, rest []pathElem) *Term {
	for i := range rest {
		if rest[i].field != "" {
			t = Field(t, rest[i].field)
		} else {
			t = Idx(t, ev.pathTerm(&rest[i]))
		}
	}
	return t
}

// before reports whether instruction a executes before b on every path reaching b (same block earlier, or a's block
// strictly dominates b's block).
func before(a, b ssa.Instruction) bool {
	if a.Block() == b.Block() {
		for _, in := range a.Block().Instrs {
			if in == a {
				return true
			}
			if in == b {
				return false
			}
		}
		return false
	}
	return a.Block().Dominates(b.Block())
}

// load evaluates *addr.
func (ev *Eval) load(u *ssa.UnOp) *Term {
	// an element of a container that another activation made and filled (a table returned by an inlined helper): this
	// activation has no stores into it, so its own index would read "never written" — ask the owner, with the index
	// evaluated here
	if ia, ok := u.X.(*ssa.IndexAddr); ok {
		if _, _, syn := resolveSyntactic(ia); !syn {
			if base := ev.op(ia.X, ia); base.K == KMake {
				if owner := ev.E.objOwner[base.N]; owner != nil && owner != ev {
					idxT := ev.opIn(ia.Index, ia.Block())
					if obj, ok := ev.E.objBySerial[base.N]; ok {
						if t := owner.elementAt(obj, idxT); t != nil {
							return t
						}
					}
					return Idx(base, idxT)
				}
			}
		}
	}
	obj, path, ok := ev.resolveAddr(u.X)
	if !ok {
		// not a tracked cell: pointers are transparent
		return ev.op(u.X, u)
	}
	if _, isMake := obj.(*ssa.MakeSlice); isMake {
		ev.phase2()
	}
	return ev.loadCell(obj, path, u)
}

// loadCell returns the content of (obj, path) as seen by the instruction at.
func (ev *Eval) loadCell(obj ssa.Value, path []pathElem, at ssa.Instruction) *Term {
	si := ev.index()
	var exact, prefix []*storeRec
	for _, s := range si.byObj[obj] {
		if at != nil && s.instr.Block() == at.Block() && !before(s.instr, at) {
			continue // later in the same block
		}
		switch {
		case len(s.path) == len(path) && ev.samePath(s.path, path):
			exact = append(exact, s)
		case len(s.path) < len(path) && ev.samePath(s.path, path[:len(s.path)]):
			prefix = append(prefix, s)
		}
	}
	cands := append(exact, prefix...)
	if len(cands) == 0 {
		// a constant index into a container filled by one counted loop: instantiate the loop's element at that index
		if t := ev.instantiateLoopStore(obj, path); t != nil {
			return t
		}
		// a variable index into a container assembled from constant-index stores: index the assembled contents
		if n := len(path); n > 0 && path[n-1].field == "" {
			if _, isC := IntConst(ev.pathTerm(&path[n-1])); !isC && ev.hasStoreUnder(obj, path[:n-1]) {
				if cont := ev.assemble(obj, path[:n-1], at); cont != nil && cont.K == KSeq {
					return Idx(cont, ev.pathTerm(&path[n-1]))
				}
			}
		}
		// a deeper store exists? then the aggregate is assembled piecewise: build a record / sequence
		if a, ok := obj.(*ssa.Alloc); ok && escapes(a) && !ev.hasStoreUnder(obj, path) {
			// the cell may have been written through the escaped pointer: its content is unknown, keep its identity
			return ev.applyPath(ev.Term(a), path)
		}
		if t := ev.assemble(obj, path, at); t != nil {
			return t
		}
		return &Term{K: KZero}
	}
	pick := func(s *storeRec) *Term {
		return ev.applyPath(ev.op(s.val, s.instr), path[len(s.path):])
	}
	if len(cands) == 1 {
		return pick(cands[0])
	}
	// prefer the latest store that executes before `at` on every path
	var best *storeRec
	for _, s := range cands {
		if at != nil && before(s.instr, at) {
			if best == nil || before(best.instr, s.instr) {
				best = s
			}
		}
	}
	if best != nil {
		// valid only if no other candidate can execute between best and at; approximate: every other candidate is before best
		okBest := true
		for _, s := range cands {
			if s != best && !before(s.instr, best.instr) {
				okBest = false
			}
		}
		if okBest {
			return pick(best)
		}
	}
	var args []*Term
	seen := map[string]bool{}
	for _, s := range cands {
		t := pick(s)
		if !seen[t.Key()] {
			seen[t.Key()] = true
			args = append(args, t)
		}
	}
	if len(args) == 1 {
		return args[0]
	}
	return &Term{K: KPhi, Args: args}
}

// assemble builds the value of an aggregate cell from the stores to its sub-cells (composite literals).
func (ev *Eval) assemble(obj ssa.Value, path []pathElem, at ssa.Instruction) *Term {
	t := cellType(obj, path)
	if t == nil {
		return nil
	}
	switch u := types.Unalias(t).Underlying().(type) {
	case *types.Struct:
		rec := &Term{K: KRecord, Name: typeString(t), Type: t}
		any := false
		for i := 0; i < u.NumFields(); i++ {
			sub := append(append([]pathElem{}, path...), pathElem{field: u.Field(i).Name()})
			has := ev.hasStoreUnder(obj, sub)
			var ft *Term
			if has {
				ft = ev.loadCell(obj, sub, at)
				any = true
			} else {
				ft = &Term{K: KZero}
			}
			rec.Names = append(rec.Names, u.Field(i).Name())
			rec.Args = append(rec.Args, ft)
		}
		if !any {
			return rec // zero struct
		}
		return rec
	case *types.Array:
		if alloc, ok := obj.(*ssa.Alloc); ok && len(path) == 0 {
			flat := true
			for _, s := range ev.index().byObj[obj] {
				if len(s.path) > 1 {
					flat = false
				}
			}
			if flat {
				return ev.arrayContents(alloc, u.Len())
			}
		}
		// nested array inside an aggregate: assemble element-wise from constant-index stores
		if u.Len() <= 64 {
			parts := make([]*Term, u.Len())
			for i := int64(0); i < u.Len(); i++ {
				sub := append(append([]pathElem{}, path...), pathElem{idxT: ConstInt(i)})
				if ev.hasStoreUnder(obj, sub) {
					parts[i] = Elem(ev.loadCell(obj, sub, at))
				} else if t := ev.instantiateLoopStore(obj, sub); t != nil {
					parts[i] = Elem(t)
				} else {
					parts[i] = Elem(&Term{K: KZero})
				}
			}
			return &Term{K: KSeq, Args: parts}
		}
	}
	return nil
}

func (ev *Eval) hasStoreUnder(obj ssa.Value, prefix []pathElem) bool {
	for _, s := range ev.index().byObj[obj] {
		if len(s.path) >= len(prefix) && ev.samePath(s.path[:len(prefix)], prefix) {
			return true
		}
	}
	return false
}

func cellType(obj ssa.Value, path []pathElem) types.Type {
	var t types.Type
	switch o := obj.(type) {
	case *ssa.Alloc:
		t = o.Type().(*types.Pointer).Elem()
	case *ssa.MakeSlice:
		t = o.Type()
	default:
		return nil
	}
	for _, pe := range path {
		u := types.Unalias(t).Underlying()
		if pe.field != "" {
			st, ok := u.(*types.Struct)
			if !ok {
				return nil
			}
			found := false
			for i := 0; i < st.NumFields(); i++ {
				if st.Field(i).Name() == pe.field {
					t = st.Field(i).Type()
					found = true
				}
			}
			if !found {
				return nil
			}
		} else {
			switch x := u.(type) {
			case *types.Array:
				t = x.Elem()
			case *types.Slice:
				t = x.Elem()
			default:
				return nil
			}
		}
	}
	return t
}

// arrayContents summarises the contents of a local array: explicit elements for constant indices, a starred element for a
// single counted-loop store.
func (ev *Eval) arrayContents(a *ssa.Alloc, n int64) *Term {
	return ev.containerContents(a, n, nil)
}

// Contents summarises a make()d slice (KMake term) as a sequence; other terms are returned unchanged.
func (ev *Eval) Contents(t *Term) *Term {
	if t.K != KMake {
		return t
	}
	obj, ok := ev.E.objBySerial[t.N]
	if !ok {
		return t
	}
	// the make may belong to an inlined activation
	owner := ev.ownerOfSerial(t.N)
	if owner == nil {
		return t
	}
	owner.phase2()
	return owner.containerContents(obj, -1, t.Args[0])
}

func (ev *Eval) ownerOfSerial(n int) *Eval {
	return ev.E.objOwner[n]
}

func (ev *Eval) containerContents(obj ssa.Value, n int64, length *Term) *Term {
	stores := ev.index().byObj[obj]
	type first = idxStore
	var firsts []first
	firsts0 := func(fs []first) []idxStore { return fs }
	for _, s := range stores {
		if len(s.path) == 0 {
			// whole-object store (array copy)
			return ev.op(s.val, s.instr)
		}
		if s.path[0].field != "" {
			return Top("container %s has field stores", obj.Name())
		}
		if len(s.path) == 1 {
			firsts = append(firsts, first{ev.pathTerm(&s.path[0]), s})
		}
	}
	if len(firsts) == 0 {
		if n >= 0 {
			parts := make([]*Term, n)
			for i := range parts {
				parts[i] = Elem(&Term{K: KZero})
			}
			return &Term{K: KSeq, Args: parts}
		}
		// a make() that is never written: n zero elements
		return &Term{K: KCall, Name: "zeros", Args: []*Term{length}}
	}
	allConst := true
	for _, f := range firsts {
		if _, ok := IntConst(f.idx); !ok {
			allConst = false
		}
	}

	value := func(s *storeRec) *Term {
		v := ev.op(s.val, s.instr)
		if v.K == KMake {
			return ev.Contents(v)
		}
		return v
	}
	// make(k+len(src)); dst[0..k) = elements; copy(dst[k:], src)  ⇒  [e0 … e(k-1) src...]
	if allConst && n < 0 && length != nil {
		if t := ev.prefixThenCopy(obj, length, firsts0(firsts), value); t != nil {
			return t
		}
	}
	if allConst && n >= 0 {
		parts := make([]*Term, n)
		for i := range parts {
			parts[i] = Elem(&Term{K: KZero})
		}
		for _, f := range firsts {
			k, _ := IntConst(f.idx)
			if k >= 0 && k < n {
				parts[k] = Elem(value(f.rec))
			}
		}
		return &Term{K: KSeq, Args: parts}
	}
	if len(firsts) == 1 {
		f := firsts[0]
		// index must be an induction variable expression
		var loop *Loop
		Walk(f.idx, func(x *Term) bool {
			if x.K == KIndVar {
				loop = x.Loop
			}
			return true
		})
		if loop != nil {
			star := &Term{K: KStar, Loop: loop, Args: []*Term{Elem(value(f.rec))}, Names: []string{f.idx.Key()}}
			return &Term{K: KSeq, Args: []*Term{star}, Name: "filled", Type: nil}
		}
	}
	return Top("container %s is filled through an unrecognised index pattern", obj.Name())
}

type idxStore struct {
	idx *Term
	rec *storeRec
}

// prefixThenCopy recognises a buffer whose first k elements are stored at constant indices and whose remainder is filled by
// one unconditional copy(buf[k:], src), with len(buf) = k + len(src).
func (ev *Eval) prefixThenCopy(obj ssa.Value, length *Term, firsts []idxStore, value func(*storeRec) *Term) *Term {
	var cp *ssa.Call
	for _, b := range ev.Fn.Blocks {
		for _, in := range b.Instrs {
			c, ok := in.(*ssa.Call)
			if !ok {
				continue
			}
			if bi, isB := c.Common().Value.(*ssa.Builtin); !isB || bi.Name() != "copy" || len(c.Common().Args) != 2 {
				continue
			}
			if sl, isSl := c.Common().Args[0].(*ssa.Slice); isSl && sl.X == obj && sl.High == nil && sl.Low != nil {
				if cp != nil {
					return nil
				}
				cp = c
			} else if c.Common().Args[0] == obj {
				return nil
			}
		}
	}
	if cp == nil || innermost(ev.Loops(), cp.Block()) != nil {
		return nil
	}
	for _, b := range ev.Fn.Blocks {
		if len(b.Instrs) > 0 {
			if _, isRet := b.Instrs[len(b.Instrs)-1].(*ssa.Return); isRet && !(cp.Block() == b || cp.Block().Dominates(b)) {
				return nil
			}
		}
	}
	sl := cp.Common().Args[0].(*ssa.Slice)
	k, ok := IntConst(ev.opIn(sl.Low, sl.Block()))
	if !ok || k < 0 || int(k) != len(firsts) {
		return nil
	}
	src := ev.op(cp.Common().Args[1], cp)
	if d := AffAdd(length, AffAdd(Len(src), ConstInt(k), 1), -1); d == nil || !isZeroConst(d) {
		return nil
	}
	parts := make([]*Term, k)
	for _, f := range firsts {
		i, _ := IntConst(f.idx)
		if i < 0 || i >= k || parts[i] != nil {
			return nil
		}
		parts[i] = Elem(value(f.rec))
	}
	for _, p := range parts {
		if p == nil {
			return nil
		}
	}
	return Seq(append(parts, Parts(src)...)...)
}

func isZeroConst(t *Term) bool {
	n, ok := IntConst(t)
	return ok && n == 0
}

// StarIndex returns the index expression under which a starred element is stored (for make/array fills).
func StarIndex(star *Term) string {
	if len(star.Names) > 0 {
		return star.Names[0]
	}
	return ""
}

// Resolve replaces every make() identity inside t by its content summary.
func (ev *Eval) Resolve(t *Term) *Term {
	return Subst(t, func(x *Term) *Term {
		if x.K == KMake {
			c := ev.Contents(x)
			if c != x {
				return c
			}
		}
		return nil
	})
}

// escapes reports whether the address of a local allocation (or of one of its sub-cells) is handed to code that may
// write through it: call arguments, stored values, interface conversions, closure bindings, returns, phis.
func escapes(a *ssa.Alloc) bool {
	var visit func(v ssa.Value, depth int) bool
	visit = func(v ssa.Value, depth int) bool {
		refs := v.Referrers()
		if refs == nil {
			return true
		}
		for _, r := range *refs {
			switch x := r.(type) {
			case *ssa.FieldAddr:
				if depth < 6 && visit(x, depth+1) {
					return true
				}
			case *ssa.IndexAddr:
				if depth < 6 && visit(x, depth+1) {
					return true
				}
			case *ssa.Store:
				if x.Val == v {
					return true
				}
			case *ssa.UnOp, *ssa.DebugRef:
			case *ssa.Slice:
				// slicing a local array (varargs / slice literal / buffer): contents may be written by callees only for
				// byte buffers, which termflow does not interpret
			default:
				return true
			}
		}
		return false
	}
	return visit(a, 0)
}

// Deref returns the record stored in a local/heap allocation (composite literal behind a pointer); other terms are
// returned unchanged.
func (ev *Eval) Deref(t *Term) *Term {
	if t == nil || t.K != KAlloc {
		return t
	}
	obj, ok := ev.E.objBySerial[t.N]
	if !ok {
		return t
	}
	owner := ev.ownerOfSerial(t.N)
	if owner == nil {
		return t
	}
	if r := owner.loadCell(obj, nil, nil); r != nil && r.K != KZero {
		return owner.Resolve(r)
	}
	return t
}

// AllocType returns the allocated (pointee) type of a KAlloc term.
func (ev *Eval) AllocType(t *Term) types.Type {
	if t == nil || t.K != KAlloc {
		return nil
	}
	if a, ok := ev.E.objBySerial[t.N].(*ssa.Alloc); ok {
		return a.Type().(*types.Pointer).Elem()
	}
	return nil
}

// instantiateLoopStore: path = […, k] with k constant, and the only stores to that level are `c[i] = f(i)` for an induction
// variable i running 0..n-1 (k < n when n is constant): the cell holds f(k).
func (ev *Eval) instantiateLoopStore(obj ssa.Value, path []pathElem) *Term {
	if len(path) == 0 || path[len(path)-1].field != "" {
		return nil
	}
	last := path[len(path)-1]
	k, ok := IntConst(ev.pathTerm(&last))
	if !ok {
		return nil
	}
	var hit *storeRec
	n := 0
	for _, s := range ev.index().byObj[obj] {
		if len(s.path) != len(path) || !ev.samePath(s.path[:len(path)-1], path[:len(path)-1]) {
			continue
		}
		n++
		hit = s
	}
	if n != 1 {
		return nil
	}
	it := ev.pathTerm(&hit.path[len(path)-1])
	if it == nil || it.K != KIndVar {
		return nil
	}
	rng, ok := it.Loop.Range(it)
	if !ok {
		return nil
	}
	bound, ok := rng.CoversZeroTo()
	if !ok {
		return nil
	}
	if b, isC := IntConst(bound); isC && (k < 0 || k >= b) {
		return nil
	}
	v := ev.Resolve(ev.op(hit.val, hit.instr))
	loop := it.Loop
	return Subst(v, func(x *Term) *Term {
		if x.K == KIndVar && x.Loop == loop {
			return ConstInt(k)
		}
		return nil
	})
}

// StoreInfo describes one store into a tracked local object (an Alloc or a MakeSlice), for rules that reason about how a
// buffer is filled segment by segment.
type StoreInfo struct {
	Obj   ssa.Value
	Path  []string // "" for an index step, the field name for a field step
	Index []*Term  // index term of each index step (nil for field steps)
	Val   *Term
	Instr *ssa.Store
	Loop  *Loop // innermost loop containing the store, or nil
}

// StoresInto lists the stores of this activation into obj, in block/instruction order.
func (ev *Eval) StoresInto(obj ssa.Value) []StoreInfo {
	ev.phase2()
	var out []StoreInfo
	for _, s := range ev.index().byObj[obj] {
		si := StoreInfo{Obj: obj, Val: ev.op(s.val, s.instr), Instr: s.instr, Loop: innermost(ev.Loops(), s.instr.Block())}
		for i := range s.path {
			si.Path = append(si.Path, s.path[i].field)
			if s.path[i].field == "" {
				si.Index = append(si.Index, ev.pathTerm(&s.path[i]))
			} else {
				si.Index = append(si.Index, nil)
			}
		}
		out = append(out, si)
	}
	return out
}

// TermIn evaluates v as seen from block b (loop variables are use-site sensitive).
func (ev *Eval) TermIn(v ssa.Value, b *ssa.BasicBlock) *Term { return ev.opIn(v, b) }

// InnermostLoop returns the innermost loop of this activation containing b.
func (ev *Eval) InnermostLoop(b *ssa.BasicBlock) *Loop { return innermost(ev.Loops(), b) }

// elementAt: obj (a make()d container of this activation) is filled by exactly one store c[i] = f(i) under an induction
// variable running 0..n-1 and by nothing else: its element at idx is f(idx) (for any idx at which the access does not
// panic). nil when the container is filled in any other way.
func (ev *Eval) elementAt(obj ssa.Value, idx *Term) *Term {
	ev.phase2()
	var hit *storeRec
	n := 0
	for _, s := range ev.index().byObj[obj] {
		n++
		hit = s
	}
	if n != 1 || len(hit.path) != 1 || hit.path[0].field != "" {
		return nil
	}
	it := ev.pathTerm(&hit.path[0])
	if it == nil || it.K != KIndVar {
		return nil
	}
	rng, ok := it.Loop.Range(it)
	if !ok {
		return nil
	}
	if _, ok := rng.CoversZeroTo(); !ok {
		return nil
	}
	v := ev.Resolve(ev.op(hit.val, hit.instr))
	loop := it.Loop
	return Subst(v, func(x *Term) *Term {
		if x.K == KIndVar && x.Loop == loop {
			return idx
		}
		return nil
	})
}

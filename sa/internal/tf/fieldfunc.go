package tf

import (
	"go/token"
	"go/types"

	"golang.org/x/tools/go/ssa"
)

// Function-valued struct fields with a single possible value.
//
// A field `hash pairHasher` that every constructor fills with the same function (directly, from a parameter whose every
// call site passes that function, or by copying the field from another node) denotes that function wherever it is called:
// making the hash pluggable "with an identical default" does not change which code runs. The set of functions that can be
// stored into each (struct type, field) of the repository is computed once, as a least fixpoint over stores; a field whose
// set is one function and nothing unknown is devirtualised.

type fieldKeyT struct {
	t string
	f int
}

type fieldFuncInfo struct {
	fns     map[*ssa.Function]bool
	unknown bool
	from    map[fieldKeyT]bool // copies from other fields
	params  []*ssa.Parameter
}

func structKeyOf(t types.Type) (string, bool) {
	if p, ok := types.Unalias(t).(*types.Pointer); ok {
		t = p.Elem()
	}
	n, ok := types.Unalias(t).(*types.Named)
	if !ok {
		return "", false
	}
	if _, isStruct := n.Underlying().(*types.Struct); !isStruct {
		return "", false
	}
	return types.TypeString(n, nil), true
}

// fieldOfLoad: v is a load of x.f (through FieldAddr) or a Field extraction; returns the field key.
func fieldOfLoad(v ssa.Value) (fieldKeyT, bool) {
	switch x := v.(type) {
	case *ssa.UnOp:
		if x.Op == token.MUL {
			if fa, ok := x.X.(*ssa.FieldAddr); ok {
				if k, ok := structKeyOf(fa.X.Type()); ok {
					return fieldKeyT{k, fa.Field}, true
				}
			}
		}
	case *ssa.Field:
		if k, ok := structKeyOf(x.X.Type()); ok {
			return fieldKeyT{k, x.Field}, true
		}
	}
	return fieldKeyT{}, false
}

func (e *Engine) fieldFuncs(prog *ssa.Program) map[fieldKeyT]*fieldFuncInfo {
	if e.fieldFn != nil {
		return e.fieldFn
	}
	e.fieldFn = map[fieldKeyT]*fieldFuncInfo{}
	get := func(k fieldKeyT) *fieldFuncInfo {
		if i, ok := e.fieldFn[k]; ok {
			return i
		}
		i := &fieldFuncInfo{fns: map[*ssa.Function]bool{}, from: map[fieldKeyT]bool{}}
		e.fieldFn[k] = i
		return i
	}
	var all []*ssa.Function
	seen := map[*ssa.Function]bool{}
	var add func(fn *ssa.Function)
	add = func(fn *ssa.Function) {
		if fn == nil || seen[fn] {
			return
		}
		seen[fn] = true
		all = append(all, fn)
		for _, a := range fn.AnonFuncs {
			add(a)
		}
	}
	for _, pkg := range prog.AllPackages() {
		if !e.InRepo(pkg.Pkg.Path()) {
			continue
		}
		for _, m := range pkg.Members {
			switch x := m.(type) {
			case *ssa.Function:
				add(x)
			case *ssa.Type:
				for _, t := range []types.Type{x.Type(), types.NewPointer(x.Type())} {
					ms := prog.MethodSets.MethodSet(t)
					for i := 0; i < ms.Len(); i++ {
						add(prog.MethodValue(ms.At(i)))
					}
				}
			}
		}
	}
	var classify func(info *fieldFuncInfo, v ssa.Value, depth int)
	classify = func(info *fieldFuncInfo, v ssa.Value, depth int) {
		switch x := v.(type) {
		case *ssa.Function:
			info.fns[x] = true
		case *ssa.ChangeType:
			classify(info, x.X, depth)
		case *ssa.Parameter:
			info.params = append(info.params, x)
		case *ssa.Phi:
			for _, ed := range x.Edges {
				classify(info, ed, depth)
			}
		case *ssa.Const:
			if x.Value != nil {
				info.unknown = true
			}
			// nil: calling it panics; not a possible callee
		default:
			if k, ok := fieldOfLoad(v); ok {
				info.from[k] = true
				return
			}
			info.unknown = true
		}
	}
	for _, fn := range all {
		for _, b := range fn.Blocks {
			for _, in := range b.Instrs {
				st, ok := in.(*ssa.Store)
				if !ok {
					continue
				}
				fa, ok := st.Addr.(*ssa.FieldAddr)
				if !ok {
					continue
				}
				if _, isSig := types.Unalias(st.Val.Type()).Underlying().(*types.Signature); !isSig {
					continue
				}
				k, ok := structKeyOf(fa.X.Type())
				if !ok {
					continue
				}
				classify(get(fieldKeyT{k, fa.Field}), st.Val, 0)
			}
		}
	}
	e.allFns = all
	// parameters: every in-repo call site's argument
	for _, info := range e.fieldFn {
		for _, prm := range info.params {
			fn := prm.Parent()
			idx := -1
			for i, q := range fn.Params {
				if q == prm {
					idx = i
				}
			}
			n := 0
			for _, caller := range all {
				for _, b := range caller.Blocks {
					for _, in := range b.Instrs {
						c, ok := in.(ssa.CallInstruction)
						if !ok || c.Common().StaticCallee() != fn || idx < 0 || idx >= len(c.Common().Args) {
							continue
						}
						n++
						a := c.Common().Args[idx]
						if _, isPrm := a.(*ssa.Parameter); isPrm {
							info.unknown = true // one level only
							continue
						}
						classify(info, a, 1)
					}
				}
			}
			if n == 0 || (fn.Object() != nil && fn.Object().Exported()) {
				// an exported constructor taking the function can be called from outside with anything
				if fn.Object() != nil && fn.Object().Exported() {
					info.unknown = true
				}
				if n == 0 {
					info.unknown = true
				}
			}
		}
		info.params = nil
	}
	// copies between fields: least fixpoint
	for changed := true; changed; {
		changed = false
		for _, info := range e.fieldFn {
			for k := range info.from {
				src, ok := e.fieldFn[k]
				if !ok {
					continue // never stored: nil
				}
				if src.unknown && !info.unknown {
					info.unknown = true
					changed = true
				}
				for f := range src.fns {
					if !info.fns[f] {
						info.fns[f] = true
						changed = true
					}
				}
			}
		}
	}
	return e.fieldFn
}

// FieldFunc resolves a call through a function-valued struct field that can only hold one function.
func (e *Engine) FieldFunc(v ssa.Value, prog *ssa.Program) *ssa.Function {
	// a function-typed parameter of an unexported function all of whose call sites pass the same function
	if prm, isPrm := v.(*ssa.Parameter); isPrm {
		fn := prm.Parent()
		if fn.Object() == nil || fn.Object().Exported() || fn.Pkg == nil || !e.InRepo(fn.Pkg.Pkg.Path()) {
			return nil
		}
		e.fieldFuncs(prog)
		idx := -1
		for i, q := range fn.Params {
			if q == prm {
				idx = i
			}
		}
		var only *ssa.Function
		n := 0
		for _, caller := range e.allFns {
			for _, b := range caller.Blocks {
				for _, in := range b.Instrs {
					// the function used as a value anywhere (stored, passed on) defeats the closed-world argument
					if _, isCall := in.(ssa.CallInstruction); !isCall {
						for _, op := range in.Operands(nil) {
							if *op == ssa.Value(fn) {
								return nil
							}
						}
						continue
					}
					c := in.(ssa.CallInstruction)
					if c.Common().StaticCallee() != fn {
						for _, a := range c.Common().Args {
							if a == ssa.Value(fn) {
								return nil
							}
						}
						continue
					}
					if idx < 0 || idx >= len(c.Common().Args) {
						return nil
					}
					av := c.Common().Args[idx]
					for {
						ct, isCT := av.(*ssa.ChangeType)
						if !isCT {
							break
						}
						av = ct.X
					}
					f, isFn := av.(*ssa.Function)
					if !isFn || (only != nil && only != f) {
						return nil
					}
					only = f
					n++
				}
			}
		}
		if n == 0 {
			return nil
		}
		return only
	}
	k, ok := fieldOfLoad(v)
	if !ok {
		return nil
	}
	info, ok := e.fieldFuncs(prog)[k]
	if !ok || info.unknown || len(info.fns) != 1 {
		return nil
	}
	for f := range info.fns {
		return f
	}
	return nil
}

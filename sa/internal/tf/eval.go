package tf

import (
	"fmt"
	"go/constant"
	"go/token"
	"go/types"
	"strings"

	"golang.org/x/tools/go/ssa"
)

const (
	frontendPkg   = "github.com/consensys/gnark/frontend"
	abstractorPkg = "github.com/reilabs/gnark-lean-extractor/v2/abstractor"
)

// Engine holds per-program caches.
type Engine struct {
	InRepo      func(pkgPath string) bool
	InlineDepth int
	serial      int
	loops       map[*ssa.Function][]*Loop
	objSerial   map[objKey]int
	objBySerial map[int]ssa.Value
	objOwner    map[int]*Eval

	globalInit   map[*ssa.Global]ssa.Value
	globalStores map[*ssa.Global]int
	fieldFn      map[fieldKeyT]*fieldFuncInfo
	allFns       []*ssa.Function
}

func NewEngine(inRepo func(string) bool, inlineDepth int) *Engine {
	return &Engine{InRepo: inRepo, InlineDepth: inlineDepth, loops: map[*ssa.Function][]*Loop{}, objSerial: map[objKey]int{}, objBySerial: map[int]ssa.Value{}, objOwner: map[int]*Eval{}}
}

func (e *Engine) Loops(fn *ssa.Function) []*Loop {
	if l, ok := e.loops[fn]; ok {
		return l
	}
	l := findLoops(fn)
	e.loops[fn] = l
	return l
}

// objKey identifies a run-time object/call abstractly: the instruction together with the activation executing it (the same
// allocation site reached through two inlined calls yields two distinct objects).
type objKey struct {
	ev *Eval
	v  ssa.Value
}

func (e *Engine) serialFor(ev *Eval, v ssa.Value) int {
	k := objKey{ev, v}
	if n, ok := e.objSerial[k]; ok {
		return n
	}
	e.serial++
	e.objSerial[k] = e.serial
	e.objBySerial[e.serial] = v
	e.objOwner[e.serial] = ev
	return e.serial
}

// Eval evaluates the values of one function activation (a function plus the terms bound to its parameters).
type Eval struct {
	E        *Engine
	Fn       *ssa.Function
	Params   []*Term
	FreeVars []*Term
	Parent   *Eval
	Site     ssa.CallInstruction
	depth    int
	memo     map[ssa.Value]*Term
	busy     map[ssa.Value]bool
	children map[ssa.CallInstruction]*Eval
	stores   *storeIndex
	loopVars map[*ssa.Phi]*Term
	loops    []*Loop
	loopsSet bool
}

// Loops returns the natural loops of this activation's function; loop descriptors carry activation-specific terms (initial
// value, bound), so they are not shared between activations.
func (ev *Eval) Loops() []*Loop {
	if !ev.loopsSet {
		ev.loops = findLoops(ev.Fn)
		ev.loopsSet = true
	}
	return ev.loops
}

// NewEval creates the top-level activation of fn with symbolic parameters named after the source parameters.
func (e *Engine) NewEval(fn *ssa.Function) *Eval {
	ev := &Eval{E: e, Fn: fn, memo: map[ssa.Value]*Term{}, busy: map[ssa.Value]bool{}, children: map[ssa.CallInstruction]*Eval{}, loopVars: map[*ssa.Phi]*Term{}}
	for _, p := range fn.Params {
		ev.Params = append(ev.Params, &Term{K: KParam, Name: p.Name(), Type: p.Type()})
	}
	for _, f := range fn.FreeVars {
		ev.FreeVars = append(ev.FreeVars, &Term{K: KParam, Name: "free:" + f.Name(), Type: f.Type()})
	}
	return ev
}

func (ev *Eval) child(site ssa.CallInstruction, fn *ssa.Function, args []*Term, free []*Term) *Eval {
	if c, ok := ev.children[site]; ok && c.Fn == fn {
		return c
	}
	c := &Eval{E: ev.E, Fn: fn, Params: args, FreeVars: free, Parent: ev, Site: site, depth: ev.depth + 1,
		memo: map[ssa.Value]*Term{}, busy: map[ssa.Value]bool{}, children: map[ssa.CallInstruction]*Eval{}, loopVars: map[*ssa.Phi]*Term{}}
	ev.children[site] = c
	return c
}

func (ev *Eval) recursive(fn *ssa.Function) bool {
	for p := ev; p != nil; p = p.Parent {
		if p.Fn == fn {
			return true
		}
	}
	return false
}

// IsAPIType reports whether t is gnark's frontend.API.
func IsAPIType(t types.Type) bool {
	n, ok := types.Unalias(t).(*types.Named)
	return ok && n.Obj().Name() == "API" && n.Obj().Pkg() != nil && n.Obj().Pkg().Path() == frontendPkg
}

// Term computes the term of an SSA value in this activation.
func (ev *Eval) Term(v ssa.Value) *Term {
	if v == nil {
		return &Term{K: KNil}
	}
	if t, ok := ev.memo[v]; ok {
		return t
	}
	if ev.busy[v] {
		return Top("cyclic definition of %s", v.Name())
	}
	ev.busy[v] = true
	t := ev.compute(v)
	delete(ev.busy, v)
	ev.memo[v] = t
	return t
}

// op evaluates operand x as seen by instruction user: a loop-header phi used from inside its own loop denotes the
// loop-carried variable of the current iteration (KMuVar / KIndVar), from outside the loop its final value.
func (ev *Eval) op(x ssa.Value, user ssa.Instruction) *Term {
	if user != nil {
		return ev.opIn(x, user.Block())
	}
	return ev.Term(x)
}

func (ev *Eval) opIn(x ssa.Value, userBlock *ssa.BasicBlock) *Term {
	if p, ok := x.(*ssa.Phi); ok && userBlock != nil {
		if l := loopWithHeader(ev.Loops(), p.Block()); l != nil && l.Blocks[userBlock] {
			return ev.loopVar(l, p)
		}
	}
	return ev.Term(x)
}

// loopVar returns the in-loop denotation of a header phi.
func (ev *Eval) loopVar(l *Loop, p *ssa.Phi) *Term {
	if t, ok := ev.loopVars[p]; ok {
		return t
	}
	var nexts []ssa.Value
	var inits []ssa.Value
	for i, pred := range p.Block().Preds {
		if l.Blocks[pred] {
			nexts = append(nexts, p.Edges[i])
		} else {
			inits = append(inits, p.Edges[i])
		}
	}
	t := &Term{K: KMuVar, Loop: l, Phi: p, Name: p.Comment}
	if isIntType(p.Type()) && len(nexts) == 1 {
		if step, ok := stepOf(nexts[0], p); ok && (l.IV == nil || l.IV == p) {
			iv := &Term{K: KIndVar, Loop: l, Phi: p}
			ev.loopVars[p] = iv
			ev.resolveIV(l, p, ev.mergeOps(inits, p, false), step)
			if l.IV == p {
				if l.HasCond && l.Canon == nil && l.TestOff == step && preIncrementForm(l, p, nexts[0]) {
					l.Canon = nexts[0]
					l.Init = AffAdd(l.Init, ConstInt(step), 1)
					l.TestOff -= step
				}
				if l.Canon != nil {
					shifted := AffAdd(iv, ConstInt(l.Step), -1)
					ev.loopVars[p] = shifted
					return shifted
				}
				return iv
			}
		}
	}
	ev.loopVars[p] = t
	return t
}

// mergeOps merges the terms of phi operands; inLoop selects the use-site for the edges (latch edges are in-loop uses).
func (ev *Eval) mergeOps(vs []ssa.Value, p *ssa.Phi, inLoop bool) *Term {
	var args []*Term
	seen := map[string]bool{}
	for _, e := range vs {
		var t *Term
		if inLoop {
			t = ev.opIn(e, latchOf(p, e))
		} else {
			t = ev.opIn(e, predOf(p, e))
		}
		if !seen[t.Key()] {
			seen[t.Key()] = true
			args = append(args, t)
		}
	}
	if len(args) == 1 {
		return args[0]
	}
	return &Term{K: KPhi, Args: args}
}

func predOf(p *ssa.Phi, e ssa.Value) *ssa.BasicBlock {
	for i, x := range p.Edges {
		if x == e {
			return p.Block().Preds[i]
		}
	}
	return nil
}

func latchOf(p *ssa.Phi, e ssa.Value) *ssa.BasicBlock { return predOf(p, e) }

func (ev *Eval) compute(v0 ssa.Value) *Term {
	user, _ := v0.(ssa.Instruction)
	T := func(x ssa.Value) *Term { return ev.op(x, user) }
	_ = T
	switch v := v0.(type) {
	case *ssa.Const:
		if v.Value == nil {
			switch types.Unalias(v.Type()).Underlying().(type) {
			case *types.Struct, *types.Array:
				return &Term{K: KZero, Type: v.Type()}
			case *types.Basic:
				return &Term{K: KNil}
			}
			return &Term{K: KNil}
		}
		return &Term{K: KConst, Val: v.Value, Type: v.Type()}
	case *ssa.Parameter:
		for i, p := range ev.Fn.Params {
			if p == v {
				if i < len(ev.Params) {
					return ev.Params[i]
				}
			}
		}
		return Top("unbound parameter %s", v.Name())
	case *ssa.FreeVar:
		for i, f := range ev.Fn.FreeVars {
			if f == v && i < len(ev.FreeVars) {
				return ev.FreeVars[i]
			}
		}
		return Top("free variable %s", v.Name())
	case *ssa.Global:
		return &Term{K: KGlobal, Name: globalName(v), Type: v.Type()}
	case *ssa.Function:
		return &Term{K: KFunc, Name: v.String()}
	case *ssa.Builtin:
		return &Term{K: KFunc, Name: "builtin." + v.Name()}
	case *ssa.Alloc:
		return &Term{K: KAlloc, N: ev.E.serialFor(ev, v), Name: v.Comment, Type: v.Type(), Instr: v}
	case *ssa.MakeSlice:
		return &Term{K: KMake, N: ev.E.serialFor(ev, v), Args: []*Term{T(v.Len)}, Type: v.Type(), Instr: v}
	case *ssa.MakeMap, *ssa.MakeChan:
		return &Term{K: KOpaque, N: ev.E.serialFor(ev, v), Name: fmt.Sprintf("%T", v)}
	case *ssa.MakeClosure:
		return &Term{K: KOpaque, N: ev.E.serialFor(ev, v), Name: "closure " + v.Fn.Name()}
	case *ssa.FieldAddr:
		return Field(T(v.X), fieldName(v.X.Type(), v.Field))
	case *ssa.Field:
		return Field(T(v.X), fieldNameVal(v.X.Type(), v.Field))
	case *ssa.IndexAddr:
		return Idx(ev.sliceBase(v.X, user), T(v.Index))
	case *ssa.Index:
		return Idx(T(v.X), T(v.Index))
	case *ssa.Lookup:
		return &Term{K: KCall, Name: "lookup", Args: []*Term{T(v.X), T(v.Index)}}
	case *ssa.Slice:
		x := ev.sliceBase(v.X, user)
		if v.Low == nil && v.High == nil {
			return x
		}
		lo, hi := &Term{K: KNil}, &Term{K: KNil}
		if v.Low != nil {
			lo = T(v.Low)
		}
		if v.High != nil {
			hi = T(v.High)
		}
		return &Term{K: KSub, Args: []*Term{x, lo, hi}}
	case *ssa.UnOp:
		switch v.Op {
		case token.MUL:
			return ev.load(v)
		case token.ARROW:
			return &Term{K: KCall, Name: "recv", Args: []*Term{T(v.X)}, N: ev.E.serialFor(ev, v)}
		case token.SUB:
			return AffScale(T(v.X), -1)
		default:
			return &Term{K: KUn, Name: v.Op.String(), Args: []*Term{T(v.X)}}
		}
	case *ssa.BinOp:
		// the incremented counter of a range-with-index loop is the loop's canonical induction variable
		if l := loopWithHeader(ev.Loops(), v.Block()); l != nil {
			for _, side := range []ssa.Value{v.X, v.Y} {
				if p, ok := side.(*ssa.Phi); ok && p.Block() == v.Block() {
					ev.loopVar(l, p)
				}
			}
			if l.Canon == ssa.Value(v) {
				return &Term{K: KIndVar, Loop: l, Phi: l.IV}
			}
		}
		return ev.binop(v)
	case *ssa.Convert:
		x := T(v.X)
		if isIntType(v.Type()) && isIntType(v.X.Type()) {
			return x // integer width conversions are transparent for affine reasoning
		}
		return &Term{K: KConv, Name: typeString(v.Type()), Args: []*Term{x}}
	case *ssa.ChangeType:
		return T(v.X)
	case *ssa.ChangeInterface:
		return T(v.X)
	case *ssa.MakeInterface:
		return T(v.X)
	case *ssa.SliceToArrayPointer:
		return T(v.X)
	case *ssa.TypeAssert:
		return T(v.X)
	case *ssa.Extract:
		t := T(v.Tuple)
		if t.K == KTuple && v.Index < len(t.Args) {
			return t.Args[v.Index]
		}
		return &Term{K: KExtract, Args: []*Term{t}, N: v.Index}
	case *ssa.Phi:
		return ev.phi(v)
	case *ssa.Call:
		return ev.call(v)
	case *ssa.Range, *ssa.Next, *ssa.Select:
		return &Term{K: KOpaque, N: ev.E.serialFor(ev, v), Name: fmt.Sprintf("%T", v)}
	}
	return Top("unhandled SSA value %T", v0)
}

func globalName(g *ssa.Global) string {
	if g.Pkg != nil {
		return g.Pkg.Pkg.Path() + "." + g.Name()
	}
	return g.Name()
}

func typeString(t types.Type) string {
	return types.TypeString(t, func(p *types.Package) string { return p.Name() })
}

func isIntType(t types.Type) bool {
	b, ok := types.Unalias(t).Underlying().(*types.Basic)
	return ok && b.Info()&types.IsInteger != 0
}

func fieldName(ptrT types.Type, i int) string {
	t := types.Unalias(ptrT).Underlying()
	if p, ok := t.(*types.Pointer); ok {
		t = types.Unalias(p.Elem()).Underlying()
	}
	if st, ok := t.(*types.Struct); ok && i < st.NumFields() {
		return st.Field(i).Name()
	}
	return fmt.Sprintf("#%d", i)
}

func fieldNameVal(t types.Type, i int) string { return fieldName(t, i) }

// sliceBase evaluates the operand of a slice/index expression; arrays held in tracked allocations become explicit
// sequences.
func (ev *Eval) sliceBase(x ssa.Value, user ssa.Instruction) *Term {
	if a, ok := x.(*ssa.Alloc); ok {
		if arr, ok := types.Unalias(a.Type().(*types.Pointer).Elem()).Underlying().(*types.Array); ok {
			if len(ev.index().byObj[a]) == 0 {
				// never stored to by this function: a buffer filled through pointers/sub-slices by callees; keep its identity
				return ev.Term(a)
			}
			return ev.arrayContents(a, arr.Len())
		}
	}
	return ev.op(x, user)
}

func (ev *Eval) binop(v *ssa.BinOp) *Term {
	x, y := ev.op(v.X, v), ev.op(v.Y, v)
	if isIntType(v.X.Type()) {
		switch v.Op {
		case token.ADD:
			return AffAdd(x, y, 1)
		case token.SUB:
			return AffAdd(x, y, -1)
		case token.MUL:
			if n, ok := IntConst(x); ok {
				return AffScale(y, n)
			}
			if n, ok := IntConst(y); ok {
				return AffScale(x, n)
			}
		case token.QUO:
			if a, ok := IntConst(x); ok {
				if b, ok := IntConst(y); ok && b != 0 {
					return ConstInt(a / b)
				}
			}
		}
	}
	return &Term{K: KBin, Name: v.Op.String(), Args: []*Term{x, y}, Type: v.Type()}
}

// ---- phis and loops

func (ev *Eval) phi(p *ssa.Phi) *Term {
	loops := ev.Loops()
	l := loopWithHeader(loops, p.Block())
	if l == nil {
		if m := ev.rotatedExitPhi(p); m != nil {
			return m
		}
		if g := ev.gated(p); g != nil {
			return g
		}
		return ev.mergeOps(p.Edges, p, false)
	}
	var inits, nexts []ssa.Value
	for i, pred := range p.Block().Preds {
		if l.Blocks[pred] {
			nexts = append(nexts, p.Edges[i])
		} else {
			inits = append(inits, p.Edges[i])
		}
	}
	lv := ev.loopVar(l, p)
	if lv.K == KIndVar {
		return lv // the exit value of an induction variable is not used by any rule; keep its identity
	}
	init := ev.mergeOps(inits, p, false)
	next := ev.mergeOps(nexts, p, true)
	ev.EnsureIV(l) // the counter of an accumulating loop may be unused in its body: resolve the loop's range all the same
	return normaliseMu(l, p, init, next, lv)
}

// EnsureIV resolves the loop's induction variable (if it has one) even when no term has asked for the counter yet.
func (ev *Eval) EnsureIV(l *Loop) {
	if l == nil || l.IV != nil {
		return
	}
	for _, in := range l.Header.Instrs {
		p, ok := in.(*ssa.Phi)
		if !ok {
			break
		}
		if isIntType(p.Type()) {
			ev.loopVar(l, p)
			if l.IV != nil {
				return
			}
		}
	}
}

// rotatedExitPhi: below a bottom-tested loop the exit block merges [entry guard false: init, latch: next]; that merge is the
// final value of the header phi with the same init/next operands.
func (ev *Eval) rotatedExitPhi(p *ssa.Phi) *Term {
	if len(p.Edges) != 2 {
		return nil
	}
	loops := ev.Loops()
	for i := 0; i < 2; i++ {
		latch, other := p.Block().Preds[i], p.Block().Preds[1-i]
		l := innermost(loops, latch)
		if l == nil || l.Blocks[p.Block()] || l.Blocks[other] {
			continue
		}
		next, init := p.Edges[i], p.Edges[1-i]
		for _, in := range l.Header.Instrs {
			hp, ok := in.(*ssa.Phi)
			if !ok {
				break
			}
			var hInit, hNext ssa.Value
			for k, pred := range l.Header.Preds {
				if l.Blocks[pred] {
					hNext = hp.Edges[k]
				} else {
					hInit = hp.Edges[k]
				}
			}
			if hInit == init && hNext == next {
				return ev.Term(hp)
			}
		}
	}
	return nil
}

// gated turns a two-way merge below an if/else diamond into ite(cond, a, b).
func (ev *Eval) gated(p *ssa.Phi) *Term {
	if len(p.Edges) != 2 {
		return nil
	}
	dom := p.Block().Idom()
	if dom == nil || len(dom.Instrs) == 0 {
		return nil
	}
	ifi, ok := dom.Instrs[len(dom.Instrs)-1].(*ssa.If)
	if !ok {
		return nil
	}
	side := func(pred *ssa.BasicBlock) int { // 1 = true branch, 0 = false branch, -1 unknown
		if pred == dom {
			if dom.Succs[0] == p.Block() && dom.Succs[1] != p.Block() {
				return 1
			}
			if dom.Succs[1] == p.Block() && dom.Succs[0] != p.Block() {
				return 0
			}
			return -1
		}
		t, f := dom.Succs[0].Dominates(pred), dom.Succs[1].Dominates(pred)
		// a successor that is the merge block itself dominates nothing useful
		if dom.Succs[0] == p.Block() {
			t = false
		}
		if dom.Succs[1] == p.Block() {
			f = false
		}
		switch {
		case t && !f:
			return 1
		case f && !t:
			return 0
		}
		return -1
	}
	s0, s1 := side(p.Block().Preds[0]), side(p.Block().Preds[1])
	if s0 < 0 || s1 < 0 || s0 == s1 {
		return nil
	}
	a, b := ev.opIn(p.Edges[0], p.Block().Preds[0]), ev.opIn(p.Edges[1], p.Block().Preds[1])
	if a.Key() == b.Key() {
		return a
	}
	cond := ev.op(ifi.Cond, ifi)
	if s0 == 1 {
		return &Term{K: KIte, Args: []*Term{cond, a, b}}
	}
	return &Term{K: KIte, Args: []*Term{cond, b, a}}
}

// stepOf recognises next = phi ± c.
// preIncrementForm: next = p + step is computed in the header before the test, and p has no other use.
func preIncrementForm(l *Loop, p *ssa.Phi, next ssa.Value) bool {
	nb, ok := next.(*ssa.BinOp)
	if !ok || nb.Block() != l.Header {
		return false
	}
	for _, r := range *p.Referrers() {
		if _, dbg := r.(*ssa.DebugRef); dbg {
			continue
		}
		if r != ssa.Instruction(nb) {
			return false
		}
	}
	return true
}

func stepOf(next ssa.Value, p *ssa.Phi) (int64, bool) {
	b, ok := next.(*ssa.BinOp)
	if !ok {
		return 0, false
	}
	c, isC := b.Y.(*ssa.Const)
	if b.X == ssa.Value(p) && isC && c.Value != nil && c.Value.Kind() == constant.Int {
		n, _ := constant.Int64Val(c.Value)
		switch b.Op {
		case token.ADD:
			return n, true
		case token.SUB:
			return -n, true
		}
	}
	if c2, isC2 := b.X.(*ssa.Const); isC2 && b.Y == ssa.Value(p) && b.Op == token.ADD && c2.Value != nil && c2.Value.Kind() == constant.Int {
		n, _ := constant.Int64Val(c2.Value)
		return n, true
	}
	return 0, false
}

// resolveIV fills the loop descriptor from the header's branch condition.
func (ev *Eval) resolveIV(l *Loop, p *ssa.Phi, init *Term, step int64) {
	if l.resolved {
		return
	}
	l.resolved = true
	l.IV, l.Init, l.Step = p, init, step
	// the loop test: top-tested (the header ends in the test) or bottom-tested/rotated (go/ssa's range-over-int form:
	// an entry guard `init cmp bound` in the preheader and the test of the *next* value in the latch)
	testBlock := l.Header
	rotated := false
	ifi, ok := lastIf(l.Header)
	if !ok || !testsIV(ifi, p) || (len(l.Header.Preds) > 0 && headerIsLatchOnly(l)) {
		// look for a latch that tests the next value
		for _, pred := range l.Header.Preds {
			if !l.Blocks[pred] {
				continue
			}
			if li, ok := lastIf(pred); ok && testsIV(li, p) {
				ifi, testBlock, rotated = li, pred, true
			}
		}
	}
	if ifi == nil || !testsIV(ifi, p) {
		l.whyNoIV = "no loop test on the induction variable found"
		return
	}
	cmp := ifi.Cond.(*ssa.BinOp)
	// which successor stays in the loop
	stayOnTrue := l.Blocks[testBlock.Succs[0]] && !l.Blocks[testBlock.Succs[1]]
	stayOnFalse := l.Blocks[testBlock.Succs[1]] && !l.Blocks[testBlock.Succs[0]]
	if !stayOnTrue && !stayOnFalse {
		l.whyNoIV = "both or neither branch of the loop test stays in the loop"
		return
	}
	off, okL := ivOffset(cmp.X, p)
	op := cmp.Op
	var boundV ssa.Value = cmp.Y
	if !okL {
		off, okL = ivOffset(cmp.Y, p)
		if !okL {
			l.whyNoIV = "loop condition does not test the induction variable"
			return
		}
		boundV = cmp.X
		op = flipCmp(op)
	}
	if stayOnFalse {
		op = negateCmp(op)
	}
	bound := ev.opIn(boundV, testBlock)
	if rotated {
		// the latch must test the next value, and the preheader must guard entry with the same test on the initial value
		if off != step {
			l.whyNoIV = "bottom-tested loop does not test the next value of the induction variable"
			return
		}
		guarded := false
		for _, pred := range l.Header.Preds {
			if l.Blocks[pred] {
				continue
			}
			gi, ok := lastIf(pred)
			if !ok {
				continue
			}
			gc, ok := gi.Cond.(*ssa.BinOp)
			if !ok {
				continue
			}
			gop := gc.Op
			gx, gy := ev.opIn(gc.X, pred), ev.opIn(gc.Y, pred)
			if Eq(gy, init) && Eq(gx, bound) {
				gx, gy = gy, gx
				gop = flipCmp(gop)
			}
			enterOnTrue := pred.Succs[0] == l.Header
			if !enterOnTrue {
				gop = negateCmp(gop)
			}
			if Eq(gx, init) && Eq(gy, bound) && gop == op {
				guarded = true
			}
		}
		if !guarded {
			l.whyNoIV = "bottom-tested loop without a matching entry guard"
			return
		}
		off = 0 // equivalent top-tested loop: the body runs for iv = init, init+step, … while iv cmp bound
		// exits from the testing latch are the loop's regular exit
		l.ExitsOK = true
		for b := range l.Blocks {
			if b == testBlock {
				continue
			}
			for _, sc := range b.Succs {
				if !l.Blocks[sc] && !abortsWithError(sc) {
					l.ExitsOK = false
				}
			}
		}
	}
	l.CondOp, l.TestOff, l.HasCond = op, off, true
	l.Bound = bound
}

func lastIf(b *ssa.BasicBlock) (*ssa.If, bool) {
	if len(b.Instrs) == 0 {
		return nil, false
	}
	ifi, ok := b.Instrs[len(b.Instrs)-1].(*ssa.If)
	return ifi, ok
}

// testsIV: the branch condition compares the induction variable (or its next value) with something.
func testsIV(ifi *ssa.If, p *ssa.Phi) bool {
	cmp, ok := ifi.Cond.(*ssa.BinOp)
	if !ok {
		return false
	}
	if _, ok := ivOffset(cmp.X, p); ok {
		return true
	}
	_, ok = ivOffset(cmp.Y, p)
	return ok
}

// headerIsLatchOnly: single-block loop whose header is its own latch (the test at its end is a bottom test).
func headerIsLatchOnly(l *Loop) bool {
	for _, pred := range l.Header.Preds {
		if pred == l.Header {
			return true
		}
	}
	return false
}

func ivOffset(v ssa.Value, p *ssa.Phi) (int64, bool) {
	if v == ssa.Value(p) {
		return 0, true
	}
	if n, ok := stepOf(v, p); ok {
		return n, true
	}
	return 0, false
}

func flipCmp(op token.Token) token.Token {
	switch op {
	case token.LSS:
		return token.GTR
	case token.LEQ:
		return token.GEQ
	case token.GTR:
		return token.LSS
	case token.GEQ:
		return token.LEQ
	}
	return op
}

func negateCmp(op token.Token) token.Token {
	switch op {
	case token.LSS:
		return token.GEQ
	case token.LEQ:
		return token.GTR
	case token.GTR:
		return token.LEQ
	case token.GEQ:
		return token.LSS
	case token.EQL:
		return token.NEQ
	case token.NEQ:
		return token.EQL
	}
	return op
}

// normaliseMu turns loop-carried appends into starred sequences.
func normaliseMu(l *Loop, p *ssa.Phi, init, next, mv *Term) *Term {
	isMv := func(t *Term) bool { return t.K == KMuVar && t.Phi == p }
	if isMv(next) {
		return init // never modified in the loop
	}
	if next.K == KSeq && len(next.Args) >= 1 {
		first := next.Args[0]
		if first.K == KSplice && isMv(first.Args[0]) {
			rest := next.Args[1:]
			clean := true
			for _, r := range rest {
				if Contains(r, isMv) {
					clean = false
				}
			}
			if clean {
				parts := append([]*Term{}, Parts(init)...)
				parts = append(parts, &Term{K: KStar, Loop: l, Args: rest})
				return &Term{K: KSeq, Args: parts}
			}
		}
	}
	return &Term{K: KMu, Loop: l, Phi: p, Args: []*Term{init, next}}
}

// ---- calls

// CalleeName renders a stable name for a static callee.
func CalleeName(fn *ssa.Function) string {
	if fn == nil {
		return "?"
	}
	return fn.String()
}

func (ev *Eval) args(vs []ssa.Value, user ssa.Instruction) []*Term {
	out := make([]*Term, len(vs))
	for i, v := range vs {
		out[i] = ev.op(v, user)
	}
	return out
}

func (ev *Eval) call(c *ssa.Call) *Term {
	com := c.Common()
	if com.IsInvoke() {
		recv := ev.op(com.Value, c)
		if IsAPIType(com.Value.Type()) {
			args := ev.args(com.Args, c)
			// expand the variadic tail when it is an explicit sequence of elements
			if sig := com.Signature(); sig.Variadic() && len(args) > 0 {
				last := args[len(args)-1]
				var exp []*Term
				ok := true
				for _, p := range Parts(last) {
					if p.K == KElem {
						exp = append(exp, p.Args[0])
					} else {
						ok = false
					}
				}
				if ok {
					args = append(args[:len(args)-1], exp...)
				} else {
					args[len(args)-1] = &Term{K: KSplice, Args: []*Term{last}}
				}
			}
			at := &Term{K: KApi, Name: com.Method.Name(), Args: args, Instr: c}
			if at.Name == "ToBinary" {
				// the bits are prover-supplied hint outputs: two decompositions of the same value are distinct wires
				// (and need not be equal when the width reaches the field size), so the call site is part of the identity
				at.N = ev.E.serialFor(ev, c)
			}
			return at
		}
		// an interface-typed package variable that is assigned exactly once, in its initialiser, and nowhere else in the
		// repository (a dependency-injection seam): the call goes to that value's method
		if fn := ev.E.Devirtualise(com); fn != nil && ev.inlinable(fn) {
			ch := ev.child(c, fn, append([]*Term{recv}, ev.args(com.Args, c)...), nil)
			return ch.Return()
		}
		full := "(" + typeString(com.Value.Type()) + ")." + com.Method.Name()
		return &Term{K: KCall, Name: full, Args: append([]*Term{recv}, ev.args(com.Args, c)...), Instr: c, N: ev.E.serialFor(ev, c)}
	}
	if b, ok := com.Value.(*ssa.Builtin); ok {
		return ev.builtin(c, b)
	}
	callee := com.StaticCallee()
	if callee == nil {
		// a function-valued struct field that every constructor fills with the same function
		if fn := ev.E.FieldFunc(com.Value, c.Parent().Prog); fn != nil {
			callee = fn
		}
	}
	if callee == nil {
		return &Term{K: KCall, Name: "dynamic", Args: append([]*Term{ev.op(com.Value, c)}, ev.args(com.Args, c)...), Instr: c, N: ev.E.serialFor(ev, c)}
	}
	if callee.Pkg != nil && callee.Pkg.Pkg.Path() == abstractorPkg && strings.HasPrefix(callee.Name(), "Call") && len(com.Args) == 2 {
		return ev.gadgetCall(c, com.Args[1])
	}
	if ev.inlinable(callee) {
		var free []*Term
		if mc, ok := com.Value.(*ssa.MakeClosure); ok {
			free = ev.args(mc.Bindings, c)
		}
		ch := ev.child(c, callee, ev.args(com.Args, c), free)
		return ch.Return()
	}
	// slices.Concat(a, b, …) / slices.Clone(a) / bytes.Clone(a): fresh slice with the operands' elements in order
	gen := callee
	if o := callee.Origin(); o != nil {
		gen = o // an instantiated generic has no package of its own
	}
	if gen.Pkg != nil && (gen.Pkg.Pkg.Path() == "slices" || gen.Pkg.Pkg.Path() == "bytes") {
		base := gen.Name()
		if i := strings.Index(base, "["); i >= 0 {
			base = base[:i]
		}
		args := ev.args(com.Args, c)
		if base == "Clone" && len(args) == 1 {
			return Seq(Parts(args[0])...)
		}
		if base == "Concat" && gen.Pkg.Pkg.Path() == "slices" && len(args) == 1 {
			var parts []*Term
			ok := true
			for _, p := range Parts(args[0]) {
				if p.K != KElem {
					ok = false
					break
				}
				parts = append(parts, Parts(p.Args[0])...)
			}
			if ok {
				return Seq(parts...)
			}
		}
	}
	// encoding/binary's append-style encoders: order.AppendUintN(dst, v) = dst ‖ N/8 bytes of v in that order
	if callee.Pkg != nil && callee.Pkg.Pkg.Path() == "encoding/binary" && strings.HasPrefix(callee.Name(), "AppendUint") && len(com.Args) == 3 {
		args := ev.args(com.Args, c)
		order := "LittleEndian"
		if strings.Contains(strings.ToLower(typeString(com.Args[0].Type())), "bigendian") {
			order = "BigEndian"
		}
		enc := &Term{K: KCall, Name: "binary." + order + ".bytes" + strings.TrimPrefix(callee.Name(), "AppendUint"), Args: []*Term{args[2]}}
		parts := append([]*Term{}, Parts(args[1])...)
		parts = append(parts, Splice(enc))
		return Seq(parts...)
	}
	return &Term{K: KCall, Name: CalleeName(callee), Args: ev.args(com.Args, c), Instr: c, N: ev.E.serialFor(ev, c)}
}

func (ev *Eval) inlinable(fn *ssa.Function) bool {
	if fn == nil || fn.Blocks == nil {
		return false
	}
	pkg := fn.Pkg
	if pkg == nil {
		if o := fn.Origin(); o != nil {
			pkg = o.Pkg // an instantiated generic has no package of its own
		}
	}
	if pkg == nil || !ev.E.InRepo(pkg.Pkg.Path()) {
		return false
	}
	if ev.depth >= ev.E.InlineDepth {
		return false
	}
	return !ev.recursive(fn)
}

// Return is the merged term of the function's results.
func (ev *Eval) Return() *Term {
	var rets [][]*Term
	var retBlocks []*ssa.BasicBlock
	for _, b := range ev.Fn.Blocks {
		if len(b.Instrs) == 0 {
			continue
		}
		if r, ok := b.Instrs[len(b.Instrs)-1].(*ssa.Return); ok {
			rets = append(rets, ev.args(r.Results, r))
			retBlocks = append(retBlocks, b)
		}
	}
	if len(rets) == 0 {
		return &Term{K: KTuple}
	}
	n := len(rets[0])
	merged := make([]*Term, n)
	// two returns below one branch: gate the merge by the branch condition
	var gate *Term
	var gateFlip bool
	if len(retBlocks) == 2 {
		for d := retBlocks[0].Idom(); d != nil; d = d.Idom() {
			ifi, ok := lastIf(d)
			if !ok {
				continue
			}
			t0, f0 := d.Succs[0].Dominates(retBlocks[0]) || d.Succs[0] == retBlocks[0], d.Succs[1].Dominates(retBlocks[0]) || d.Succs[1] == retBlocks[0]
			t1, f1 := d.Succs[0].Dominates(retBlocks[1]) || d.Succs[0] == retBlocks[1], d.Succs[1].Dominates(retBlocks[1]) || d.Succs[1] == retBlocks[1]
			if t0 && !f0 && f1 && !t1 {
				gate = ev.op(ifi.Cond, ifi)
			} else if f0 && !t0 && t1 && !f1 {
				gate, gateFlip = ev.op(ifi.Cond, ifi), true
			}
			if d.Dominates(retBlocks[1]) {
				break
			}
		}
	}
	for i := 0; i < n; i++ {
		if gate != nil && rets[0][i].Key() != rets[1][i].Key() {
			a, b := rets[0][i], rets[1][i]
			if gateFlip {
				a, b = b, a
			}
			merged[i] = &Term{K: KIte, Args: []*Term{gate, a, b}}
			continue
		}
		var args []*Term
		seen := map[string]bool{}
		for _, r := range rets {
			if !seen[r[i].Key()] {
				seen[r[i].Key()] = true
				args = append(args, r[i])
			}
		}
		if len(args) == 1 {
			merged[i] = args[0]
		} else {
			merged[i] = &Term{K: KPhi, Args: args}
		}
	}
	if n == 1 {
		return merged[0]
	}
	return &Term{K: KTuple, Args: merged}
}

func (ev *Eval) gadgetCall(c *ssa.Call, g ssa.Value) *Term {
	mi, ok := g.(*ssa.MakeInterface)
	if !ok {
		return Top("gadget argument of %s is not a concrete value (%T)", c.Common().StaticCallee().Name(), g)
	}
	t := mi.X.Type()
	name := typeString(t)
	rec := ev.op(mi.X, c)
	gt := &Term{K: KGadget, Name: name, Type: t, Instr: c}
	st, _ := types.Unalias(t).Underlying().(*types.Struct)
	if pt, ok := types.Unalias(t).Underlying().(*types.Pointer); ok {
		st, _ = types.Unalias(pt.Elem()).Underlying().(*types.Struct)
	}
	if st == nil {
		return Top("gadget type %s is not a struct", name)
	}
	for i := 0; i < st.NumFields(); i++ {
		gt.Names = append(gt.Names, st.Field(i).Name())
		gt.Args = append(gt.Args, Field(rec, st.Field(i).Name()))
	}
	return gt
}

func (ev *Eval) builtin(c *ssa.Call, b *ssa.Builtin) *Term {
	args := ev.args(c.Common().Args, c)
	switch b.Name() {
	case "append":
		if len(args) == 2 {
			parts := append([]*Term{}, Parts(args[0])...)
			parts = append(parts, Parts(args[1])...)
			return Seq(parts...)
		}
		return args[0]
	case "len":
		return Len(args[0])
	case "cap":
		return &Term{K: KCall, Name: "cap", Args: args}
	}
	return &Term{K: KCall, Name: "builtin." + b.Name(), Args: args, Instr: c, N: ev.E.serialFor(ev, c)}
}

// ---- events

// Event is a constraint-relevant or otherwise interesting call executed by the function (including inlined callees).
type Event struct {
	Instr ssa.CallInstruction
	Term  *Term
	Ev    *Eval // activation in which the call occurs
}

// Events lists, in block/instruction order, every call of this activation and of the activations inlined into it.
func (ev *Eval) Events() []Event {
	var out []Event
	for _, b := range ev.Fn.Blocks {
		for _, in := range b.Instrs {
			c, ok := in.(*ssa.Call)
			if !ok {
				continue
			}
			if b, isB := c.Common().Value.(*ssa.Builtin); isB && b.Name() != "copy" {
				continue
			}
			t := ev.Term(c)
			if ch, ok := ev.children[c]; ok {
				out = append(out, ch.Events()...)
				continue
			}
			out = append(out, Event{Instr: c, Term: t, Ev: ev})
		}
	}
	return out
}

// OuterInstr returns the instruction of the top-level activation through which the event is reached.
func (e Event) OuterInstr() ssa.Instruction {
	var in ssa.Instruction = e.Instr
	for a := e.Ev; a != nil && a.Parent != nil; a = a.Parent {
		in = a.Site
	}
	return in
}

// OnEveryPathToReturn reports whether the event's instruction dominates every return of every enclosing activation up to
// the top-level one (so it executes whenever the function returns normally), and is not inside a loop that may run zero
// times (inLoop is reported separately).
func (e Event) OnEveryPathToReturn() (ok bool, inLoop bool) {
	ok = true
	var in ssa.Instruction = e.Instr
	for a := e.Ev; a != nil; a = a.Parent {
		blk := in.Block()
		for _, b := range a.Fn.Blocks {
			if len(b.Instrs) == 0 {
				continue
			}
			if ret, isRet := b.Instrs[len(b.Instrs)-1].(*ssa.Return); isRet {
				if isErrorReturn(ret) {
					continue // a return that reports failure is not a normal return
				}
				if !blk.Dominates(b) {
					ok = false
				}
			}
		}
		if innermost(a.Loops(), blk) != nil {
			inLoop = true
		}
		if a.Parent == nil {
			break
		}
		in = a.Site
	}
	return
}

// LoopOf returns the innermost loop containing the event in its own activation.
func (e Event) LoopOf() *Loop {
	return innermost(e.Ev.Loops(), e.Instr.Block())
}

// isErrorReturn: the last result has type error and is not the nil constant.
func isErrorReturn(ret *ssa.Return) bool {
	if len(ret.Results) == 0 {
		return false
	}
	last := ret.Results[len(ret.Results)-1]
	if !types.Identical(last.Type(), types.Universe.Lookup("error").Type()) {
		return false
	}
	c, isConst := last.(*ssa.Const)
	return !isConst || c.Value != nil
}

// ExtStore is a store through an address that is not a tracked local cell (memory owned by a caller: receiver, parameter,
// global), with the terms of the address and of the stored value.
type ExtStore struct {
	Instr *ssa.Store
	Addr  *Term
	Val   *Term
	Ev    *Eval
}

// ExtStores lists the stores to non-local memory of this activation and of the activations inlined into it.
func (ev *Eval) ExtStores() []ExtStore {
	var out []ExtStore
	for _, b := range ev.Fn.Blocks {
		for _, in := range b.Instrs {
			switch x := in.(type) {
			case *ssa.Store:
				if _, _, ok := ev.resolveAddr(x.Addr); ok {
					continue
				}
				out = append(out, ExtStore{Instr: x, Addr: ev.op(x.Addr, x), Val: ev.Resolve(ev.op(x.Val, x)), Ev: ev})
			case *ssa.Call:
				_ = ev.Term(x)
				if ch, ok := ev.children[x]; ok {
					out = append(out, ch.ExtStores()...)
				}
			}
		}
	}
	return out
}

// WalkActivations calls f for this activation and every activation inlined into it (after forcing their evaluation
// through Events).
func (ev *Eval) WalkActivations(f func(*Eval)) {
	f(ev)
	var cs []*Eval
	for _, c := range ev.children {
		cs = append(cs, c)
	}
	// deterministic order
	for i := 0; i < len(cs); i++ {
		for j := i + 1; j < len(cs); j++ {
			if cs[j].Site.Pos() < cs[i].Site.Pos() {
				cs[i], cs[j] = cs[j], cs[i]
			}
		}
	}
	for _, c := range cs {
		c.WalkActivations(f)
	}
}

// devirtualise resolves an invoke whose receiver is the load of a single-assignment package-level interface variable.
func (e *Engine) Devirtualise(com *ssa.CallCommon) *ssa.Function {
	ld, ok := com.Value.(*ssa.UnOp)
	if !ok || ld.Op != token.MUL {
		return nil
	}
	g, ok := ld.X.(*ssa.Global)
	if !ok || g.Pkg == nil || !e.InRepo(g.Pkg.Pkg.Path()) {
		return nil
	}
	v := e.SingleInitValue(g)
	mi, ok := v.(*ssa.MakeInterface)
	if !ok {
		return nil
	}
	return g.Pkg.Prog.LookupMethod(mi.X.Type(), com.Method.Pkg(), com.Method.Name())
}

// SingleInitValue returns the value stored into g when the only store to g in the repository's packages is in a package
// initialiser; nil otherwise.
func (e *Engine) SingleInitValue(g *ssa.Global) ssa.Value {
	if e.globalInit == nil {
		e.globalInit = map[*ssa.Global]ssa.Value{}
		e.globalStores = map[*ssa.Global]int{}
		seen := map[*ssa.Function]bool{}
		var scan func(fn *ssa.Function)
		scan = func(fn *ssa.Function) {
			if fn == nil || seen[fn] {
				return
			}
			seen[fn] = true
			for _, b := range fn.Blocks {
				for _, in := range b.Instrs {
					if st, ok := in.(*ssa.Store); ok {
						if gg, ok := st.Addr.(*ssa.Global); ok {
							e.globalStores[gg]++
							if fn.Name() == "init" && fn.Parent() == nil {
								e.globalInit[gg] = st.Val
							} else {
								e.globalStores[gg] += 100
							}
						}
					}
					// the address escaping (&g passed on) counts as a possible writer
					if _, isStore := in.(*ssa.Store); !isStore {
						for _, op := range in.Operands(nil) {
							if gg, ok := (*op).(*ssa.Global); ok {
								if _, isLoad := in.(*ssa.UnOp); !isLoad {
									e.globalStores[gg] += 100
								}
							}
						}
					}
				}
			}
			for _, a := range fn.AnonFuncs {
				scan(a)
			}
		}
		for _, pkg := range g.Pkg.Prog.AllPackages() {
			if !e.InRepo(pkg.Pkg.Path()) {
				continue
			}
			for _, m := range pkg.Members {
				switch m := m.(type) {
				case *ssa.Function:
					scan(m)
				case *ssa.Type:
					for _, t := range []types.Type{m.Type(), types.NewPointer(m.Type())} {
						ms := pkg.Prog.MethodSets.MethodSet(t)
						for i := 0; i < ms.Len(); i++ {
							scan(pkg.Prog.MethodValue(ms.At(i)))
						}
					}
				}
			}
			scan(pkg.Func("init"))
		}
	}
	if e.globalStores[g] != 1 {
		return nil
	}
	return e.globalInit[g]
}

// Package core: loading of /repo's current working tree into a type-checked program with SSA,
// and the obligation/evidence/known-findings reporting shared by all checks.
package core

import (
	"fmt"
	"go/ast"
	"go/token"
	"go/types"
	"os"
	"path/filepath"
	"sort"
	"strings"
	"time"

	"golang.org/x/tools/go/packages"
	"golang.org/x/tools/go/ssa"
	"golang.org/x/tools/go/ssa/ssautil"
)

// ModulePath is the module path of the repository under analysis.
const ModulePath = "worldcoin/gnark-mbu"

// RepoDir returns the directory of the repository under analysis.
func RepoDir() string {
	if d := os.Getenv("VERIF_REPO"); d != "" {
		return d
	}
	return "/repo"
}

// Program is the loaded, type-checked repository with SSA for its own packages.
type Program struct {
	Dir      string
	Fset     *token.FileSet
	Pkgs     []*packages.Package          // root (in-repo) packages, sorted by path
	All      map[string]*packages.Package // every package by path
	SSA      *ssa.Program
	SSAPkgs  map[string]*ssa.Package // in-repo only
	LoadSecs float64
	NFuncs   int
	NInstrs  int
	GOOS     string
	GOARCH   string
	Overlay  map[string][]byte
}

// LoadOpts controls loading.
type LoadOpts struct {
	GOOS, GOARCH string
	Overlay      map[string][]byte
	AllSSA       bool // build SSA bodies for dependencies as well (needed for VTA)
}

// Load loads ./... of the repository. A load or type error is returned as an error: the caller must exit 2 (no verdict).
func Load(opts LoadOpts) (*Program, error) {
	t0 := time.Now()
	dir := RepoDir()
	env := append(os.Environ(),
		"GOFLAGS=-mod=mod", "GOPROXY=off", "GOSUMDB=off", "GOTOOLCHAIN=local", "GOWORK=off", "CGO_ENABLED=0")
	if opts.GOOS != "" {
		env = append(env, "GOOS="+opts.GOOS)
	}
	if opts.GOARCH != "" {
		env = append(env, "GOARCH="+opts.GOARCH)
	}
	fset := token.NewFileSet()
	cfg := &packages.Config{
		Mode:    packages.LoadAllSyntax,
		Dir:     dir,
		Env:     env,
		Fset:    fset,
		Tests:   false,
		Overlay: opts.Overlay,
	}
	pkgs, err := packages.Load(cfg, "./...")
	if err != nil {
		return nil, fmt.Errorf("packages.Load: %w", err)
	}
	if len(pkgs) == 0 {
		return nil, fmt.Errorf("no packages loaded from %s", dir)
	}
	p := &Program{Dir: dir, Fset: fset, All: map[string]*packages.Package{}, SSAPkgs: map[string]*ssa.Package{},
		GOOS: opts.GOOS, GOARCH: opts.GOARCH, Overlay: opts.Overlay}
	var errs []string
	packages.Visit(pkgs, nil, func(pk *packages.Package) {
		p.All[pk.PkgPath] = pk
		if InRepo(pk.PkgPath) {
			for _, e := range pk.Errors {
				errs = append(errs, e.Error())
			}
		}
	})
	if len(errs) > 0 {
		sort.Strings(errs)
		return nil, fmt.Errorf("type/load errors in repository packages:\n  %s", strings.Join(errs, "\n  "))
	}
	for _, pk := range pkgs {
		if InRepo(pk.PkgPath) {
			p.Pkgs = append(p.Pkgs, pk)
		}
	}
	sort.Slice(p.Pkgs, func(i, j int) bool { return p.Pkgs[i].PkgPath < p.Pkgs[j].PkgPath })
	if len(p.Pkgs) == 0 {
		return nil, fmt.Errorf("no in-repo packages (module %s) found under %s", ModulePath, dir)
	}
	prog, _ := ssautil.AllPackages(pkgs, ssa.InstantiateGenerics)
	p.SSA = prog
	for _, sp := range prog.AllPackages() {
		if sp.Pkg != nil && InRepo(sp.Pkg.Path()) {
			p.SSAPkgs[sp.Pkg.Path()] = sp
			sp.Build()
		} else if opts.AllSSA {
			sp.Build()
		}
	}
	for _, fn := range p.RepoFuncs() {
		p.NFuncs++
		for _, b := range fn.Blocks {
			p.NInstrs += len(b.Instrs)
		}
	}
	p.LoadSecs = time.Since(t0).Seconds()
	return p, nil
}

// InRepo reports whether a package path belongs to the repository under analysis.
func InRepo(path string) bool {
	return path == ModulePath || strings.HasPrefix(path, ModulePath+"/")
}

// RepoFuncs returns every function with a body (incl. methods and anonymous functions) of the in-repo packages,
// sorted by position.
func (p *Program) RepoFuncs() []*ssa.Function {
	seen := map[*ssa.Function]bool{}
	var out []*ssa.Function
	var add func(fn *ssa.Function)
	add = func(fn *ssa.Function) {
		if fn == nil || seen[fn] || fn.Blocks == nil {
			return
		}
		seen[fn] = true
		out = append(out, fn)
		for _, a := range fn.AnonFuncs {
			add(a)
		}
	}
	for _, sp := range p.SSAPkgs {
		for _, m := range sp.Members {
			switch m := m.(type) {
			case *ssa.Function:
				add(m)
			case *ssa.Type:
				for _, t := range []types.Type{m.Type(), types.NewPointer(m.Type())} {
					ms := p.SSA.MethodSets.MethodSet(t)
					for i := 0; i < ms.Len(); i++ {
						fn := p.SSA.MethodValue(ms.At(i))
						if fn != nil && fn.Pkg == sp && fn.Synthetic == "" {
							add(fn)
						}
					}
				}
			}
		}
	}
	sort.Slice(out, func(i, j int) bool {
		pi, pj := p.Fset.Position(out[i].Pos()), p.Fset.Position(out[j].Pos())
		if pi.Filename != pj.Filename {
			return pi.Filename < pj.Filename
		}
		if pi.Offset != pj.Offset {
			return pi.Offset < pj.Offset
		}
		return out[i].String() < out[j].String()
	})
	return out
}

// Pkg returns the in-repo package with the given path relative to the module ("" = root).
func (p *Program) Pkg(rel string) *packages.Package {
	path := ModulePath
	if rel != "" {
		path += "/" + rel
	}
	return p.All[path]
}

// SSAPkg is the SSA counterpart of Pkg.
func (p *Program) SSAPkg(rel string) *ssa.Package {
	path := ModulePath
	if rel != "" {
		path += "/" + rel
	}
	return p.SSAPkgs[path]
}

// Func looks up a package-level function by relative package path and name.
func (p *Program) Func(rel, name string) *ssa.Function {
	sp := p.SSAPkg(rel)
	if sp == nil {
		return nil
	}
	return sp.Func(name)
}

// Method looks up a method (value or pointer receiver) on a named type of an in-repo package.
func (p *Program) Method(rel, typeName, method string) *ssa.Function {
	sp := p.SSAPkg(rel)
	if sp == nil {
		return nil
	}
	tm, _ := sp.Members[typeName].(*ssa.Type)
	if tm == nil {
		return nil
	}
	return p.MethodOf(tm.Type(), method)
}

// MethodOf finds method name in the method set of T or *T.
func (p *Program) MethodOf(t types.Type, method string) *ssa.Function {
	for _, tt := range []types.Type{t, types.NewPointer(t)} {
		ms := p.SSA.MethodSets.MethodSet(tt)
		for i := 0; i < ms.Len(); i++ {
			if ms.At(i).Obj().Name() == method {
				return p.SSA.MethodValue(ms.At(i))
			}
		}
	}
	return nil
}

// Pos renders a position relative to the repository root.
func (p *Program) Pos(pos token.Pos) string {
	if !pos.IsValid() {
		return "-"
	}
	q := p.Fset.Position(pos)
	rel, err := filepath.Rel(p.Dir, q.Filename)
	if err != nil {
		rel = q.Filename
	}
	return fmt.Sprintf("%s:%d", rel, q.Line)
}

// FuncDecl returns the syntax of a source function (FuncDecl or FuncLit) and its package.
func (p *Program) FuncSyntax(fn *ssa.Function) (ast.Node, *packages.Package) {
	if fn == nil || fn.Syntax() == nil {
		return nil, nil
	}
	var pk *packages.Package
	if fn.Pkg != nil {
		pk = p.All[fn.Pkg.Pkg.Path()]
	} else if par := fn.Parent(); par != nil && par.Pkg != nil {
		pk = p.All[par.Pkg.Pkg.Path()]
	}
	return fn.Syntax(), pk
}

// FuncName renders a function name relative to the module.
func FuncName(fn *ssa.Function) string {
	if fn == nil {
		return "<nil>"
	}
	s := fn.String()
	s = strings.ReplaceAll(s, ModulePath+"/", "")
	s = strings.ReplaceAll(s, ModulePath+".", "main.")
	return s
}

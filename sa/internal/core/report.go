package core

import (
	"bufio"
	"encoding/json"
	"fmt"
	"os"
	"path/filepath"
	"sort"
	"strconv"
	"strings"
	"time"
)

// ProcessStart is used for wall-clock accounting (includes loading).
var ProcessStart = time.Now()

// Status of one obligation instance.
type Status string

const (
	OK        Status = "OK"
	Violation Status = "VIOLATION"
	Undecided Status = "UNDECIDED"
	Known     Status = "KNOWN-FINDING"
	Info      Status = "INFO"
)

// Ob is one obligation instance: a rule applied to a construct.
type Ob struct {
	Rule      string `json:"rule"`      // obligation id, e.g. "O15.1"
	Construct string `json:"construct"` // stable name of the construct (function + operand), never a line number
	Pos       string `json:"pos"`       // file:line for the reader
	Status    Status `json:"status"`
	Detail    string `json:"detail,omitempty"`
}

// Report accumulates the obligations of one property check.
type Report struct {
	Property    string
	Tier        string
	Seed        int64
	Start       time.Time
	Obs         []Ob
	Explanation string
	Rules       map[string]string // rule id -> one-line statement of the rule
	Floors      map[string]int    // role -> minimum instance count confirmed by hand
	Counts      map[string]int    // role -> measured
	Analysed    []string          // functions / artefacts analysed
	Trusted     []string
	Assumptions []string
	NotDecided  []string
	Extra       map[string]any
	Prog        *Program
}

func NewReport(prop, tier string) *Report {
	seed, _ := strconv.ParseInt(os.Getenv("VERIF_SEED"), 10, 64)
	return &Report{Property: prop, Tier: tier, Seed: seed, Start: time.Now(), Rules: map[string]string{},
		Floors: map[string]int{}, Counts: map[string]int{}, Extra: map[string]any{}}
}

func (r *Report) Rule(id, text string) { r.Rules[id] = text }

func (r *Report) add(rule, construct, pos string, st Status, format string, args ...any) {
	r.Obs = append(r.Obs, Ob{Rule: rule, Construct: construct, Pos: pos, Status: st, Detail: fmt.Sprintf(format, args...)})
}
func (r *Report) OK(rule, construct, pos, format string, args ...any) {
	r.add(rule, construct, pos, OK, format, args...)
}
func (r *Report) Violation(rule, construct, pos, format string, args ...any) {
	r.add(rule, construct, pos, Violation, format, args...)
}
func (r *Report) Undecided(rule, construct, pos, format string, args ...any) {
	r.add(rule, construct, pos, Undecided, format, args...)
}

// Check records OK if cond holds, else a violation.
func (r *Report) Check(cond bool, rule, construct, pos, okDetail, badDetail string) bool {
	if cond {
		r.OK(rule, construct, pos, "%s", okDetail)
	} else {
		r.Violation(rule, construct, pos, "%s", badDetail)
	}
	return cond
}

// Floor registers a per-role minimum; Count adds measured instances.
func (r *Report) Floor(role string, n int) { r.Floors[role] = n }
func (r *Report) Count(role string, n int) { r.Counts[role] += n }
func (r *Report) AnalysedFn(names ...string) {
	r.Analysed = append(r.Analysed, names...)
}

type knownFinding struct {
	Property, Rule, Construct, What string
}

func loadKnown(path string) ([]knownFinding, error) {
	f, err := os.Open(path)
	if err != nil {
		if os.IsNotExist(err) {
			return nil, nil
		}
		return nil, err
	}
	defer f.Close()
	var out []knownFinding
	sc := bufio.NewScanner(f)
	sc.Buffer(make([]byte, 1<<20), 1<<20)
	for sc.Scan() {
		line := strings.TrimSpace(sc.Text())
		if !strings.HasPrefix(line, "open:") {
			continue
		}
		rest := strings.TrimSpace(strings.TrimPrefix(line, "open:"))
		what := ""
		if i := strings.Index(rest, "::"); i >= 0 {
			what = strings.TrimSpace(rest[i+2:])
			rest = strings.TrimSpace(rest[:i])
		}
		k := knownFinding{What: what}
		// construct may contain spaces: property=.. rule=.. construct=<rest of line>
		if i := strings.Index(rest, "construct="); i >= 0 {
			k.Construct = strings.TrimSpace(rest[i+len("construct="):])
			rest = rest[:i]
		}
		for _, f := range strings.Fields(rest) {
			if v, ok := strings.CutPrefix(f, "property="); ok {
				k.Property = v
			}
			if v, ok := strings.CutPrefix(f, "rule="); ok {
				k.Rule = v
			}
		}
		out = append(out, k)
	}
	return out, sc.Err()
}

// VerifDir is the directory holding MANIFEST.json, evidence/ and known_findings.txt.
func VerifDir() string {
	if d := os.Getenv("VERIF_DIR"); d != "" {
		return d
	}
	if wd, err := os.Getwd(); err == nil {
		for d := wd; d != "/" && d != "."; d = filepath.Dir(d) {
			if _, err := os.Stat(filepath.Join(d, "properties.jsonl")); err == nil {
				return d
			}
		}
	}
	return "/verif"
}

// Finish applies floors and known findings, prints the obligation lines, writes the evidence file and returns the
// process exit code (0 held, 1 violation).
func (r *Report) Finish() int {
	vd := VerifDir()
	// floors
	roles := make([]string, 0, len(r.Floors))
	for k := range r.Floors {
		roles = append(roles, k)
	}
	sort.Strings(roles)
	for _, role := range roles {
		if r.Counts[role] < r.Floors[role] {
			r.Violation("FLOOR", role, "-", "rule matched too few sites: found %d instance(s) of role %q, at least %d confirmed by hand on the reference tree", r.Counts[role], role, r.Floors[role])
		} else {
			r.OK("FLOOR", role, "-", "%d instance(s) >= floor %d", r.Counts[role], r.Floors[role])
		}
	}
	known, err := loadKnown(filepath.Join(vd, "known_findings.txt"))
	if err != nil {
		fmt.Fprintf(os.Stderr, "cannot read known_findings.txt: %v\n", err)
		return 2
	}
	nViol, nUndec, nOK, nKnown := 0, 0, 0, 0
	for i := range r.Obs {
		o := &r.Obs[i]
		if o.Status == Violation || o.Status == Undecided {
			for _, k := range known {
				if k.Property == r.Property && k.Rule == o.Rule && k.Construct == o.Construct {
					o.Status = Known
					o.Detail = k.What + " | " + o.Detail
				}
			}
		}
		switch o.Status {
		case OK:
			nOK++
		case Violation:
			nViol++
		case Undecided:
			nUndec++
		case Known:
			nKnown++
		}
	}
	sort.SliceStable(r.Obs, func(i, j int) bool { return r.Obs[i].Rule < r.Obs[j].Rule })
	for _, o := range r.Obs {
		switch o.Status {
		case Known:
			fmt.Printf("KNOWN-FINDING: property=%s rule=%s construct=%s %s (%s)\n", r.Property, o.Rule, o.Construct, o.Detail, o.Pos)
		default:
			fmt.Printf("%-9s %-7s %s  [%s]  %s\n", o.Status, o.Rule, o.Construct, o.Pos, o.Detail)
		}
	}
	bad := nViol + nUndec
	wall := time.Since(ProcessStart).Seconds()
	// evidence
	samples := make([]Ob, 0, 40)
	for _, o := range r.Obs {
		if o.Status != OK || len(samples) < 40 {
			samples = append(samples, o)
		}
	}
	sort.Strings(r.Analysed)
	r.Analysed = uniq(r.Analysed)
	cov := map[string]any{
		"explanation":         r.Explanation,
		"obligations":         len(r.Obs),
		"discharged":          nOK,
		"undecided":           nUndec,
		"known_findings":      nKnown,
		"programs":            len(r.Analysed),
		"analysed":            r.Analysed,
		"rules":               r.Rules,
		"floors":              r.Floors,
		"instance_counts":     r.Counts,
		"samples":             samples,
		"all_obligations":     r.Obs,
		"trusted_base":        r.Trusted,
		"not_decided":         r.NotDecided,
		"checker_cmd":         fmt.Sprintf("./bin/sa check %s --tier %s", r.Property, r.Tier),
		"exhaustive":          true,
		"rule":                "every obligation instance (rule x construct) found by the analyser in the current working tree is enumerated; an instance is distinct by (rule, construct)",
		"evaluations":         len(r.Obs),
		"distinct_nontrivial": distinct(r.Obs),
	}
	if r.Prog != nil {
		cov["repo_packages"] = len(r.Prog.Pkgs)
		cov["repo_functions"] = r.Prog.NFuncs
		cov["repo_ssa_instructions"] = r.Prog.NInstrs
		cov["load_seconds"] = r.Prog.LoadSecs
	}
	for k, v := range r.Extra {
		cov[k] = v
	}
	ev := map[string]any{
		"property_id": r.Property,
		"tier":        r.Tier,
		"seed":        r.Seed,
		"level":       "other",
		"coverage":    cov,
		"assumptions": append(append([]string{}, r.Assumptions...), r.Trusted...),
		"wall_s":      wall,
		"violations":  bad,
	}
	evDir := filepath.Join(vd, "evidence")
	if d := os.Getenv("VERIF_EVIDENCE_DIR"); d != "" {
		evDir = d // scratch runs against mutants must not overwrite the evidence of the real tree
	}
	_ = os.MkdirAll(evDir, 0o755)
	if err := writeJSON(filepath.Join(evDir, r.Property+".json"), ev); err != nil {
		fmt.Fprintf(os.Stderr, "cannot write evidence: %v\n", err)
		return 2
	}
	fmt.Printf("SUMMARY property=%s tier=%s obligations=%d ok=%d violations=%d undecided=%d known=%d analysed=%d wall=%.1fs\n",
		r.Property, r.Tier, len(r.Obs), nOK, nViol, nUndec, nKnown, len(r.Analysed), wall)
	if bad > 0 {
		vdir := filepath.Join(evDir, "violations")
		_ = os.MkdirAll(vdir, 0o755)
		var vs []Ob
		for _, o := range r.Obs {
			if o.Status == Violation || o.Status == Undecided {
				vs = append(vs, o)
			}
		}
		replay := filepath.Join(vdir, r.Property+".json")
		_ = writeJSON(replay, map[string]any{"property_id": r.Property, "tier": r.Tier, "violations": vs})
		fmt.Printf("VIOLATION property=%s replay=%s\n", r.Property, replay)
		return 1
	}
	return 0
}

func distinct(obs []Ob) int {
	m := map[string]bool{}
	for _, o := range obs {
		m[o.Rule+"\x00"+o.Construct] = true
	}
	return len(m)
}

func uniq(s []string) []string {
	var out []string
	for i, x := range s {
		if i == 0 || x != s[i-1] {
			out = append(out, x)
		}
	}
	return out
}

func writeJSON(path string, v any) error {
	b, err := json.MarshalIndent(v, "", " ")
	if err != nil {
		return err
	}
	tmp := path + ".tmp"
	if err := os.WriteFile(tmp, append(b, '\n'), 0o644); err != nil {
		return err
	}
	return os.Rename(tmp, path)
}

#!/bin/bash
# usage: matrix.sh <patch.diff>...  — for each patch prints which properties' checks exit non-zero on the patched tree
for patch in "$@"; do
  patch=$(realpath "$patch")
  wt=$(mktemp -d /tmp/matrix.XXXXXX)
  git -C /repo worktree add -q --detach "$wt" HEAD >/dev/null 2>&1
  if ! git -C "$wt" apply "$patch" 2>/dev/null; then echo "$patch: DOES-NOT-APPLY"; git -C /repo worktree remove --force "$wt"; continue; fi
  out=$(cd /verif && VERIF_REPO="$wt" VERIF_EVIDENCE_DIR="$wt/.evidence" ${SA:-./bin/sa} check-all 2>&1)
  caught=$(echo "$out" | awk '/^RESULT/ && $3!=0 {printf "%s%s", sep, $2 ($3==2?"(err)":""); sep=","}')
  [ -z "$(echo "$out" | grep '^RESULT')" ] && caught="LOAD-ERROR"
  echo "$patch: ${caught:-none}"
  git -C /repo worktree remove --force "$wt"
done

#!/bin/bash
# usage: mutest.sh <patch.diff> <property id>...   — applies the patch to a scratch worktree and runs the checks against it.
set -u
patch=$(realpath "$1"); shift
wt=$(mktemp -d /tmp/mutest.XXXXXX)
git -C /repo worktree add -q --detach "$wt" HEAD >/dev/null 2>&1 || { echo "worktree failed"; exit 2; }
if ! git -C "$wt" apply "$patch"; then echo "PATCH DOES NOT APPLY"; git -C /repo worktree remove --force "$wt"; exit 2; fi
rc=0
for id in "$@"; do
  out=$(cd /verif && VERIF_REPO="$wt" VERIF_EVIDENCE_DIR="$wt/.evidence" ${SA:-./bin/sa} check "$id" --tier "${TIER:-quick}" 2>&1); c=$?
  echo "== $id exit=$c"
  echo "$out" | grep -E "^(VIOLATION|UNDECIDED|LOAD-ERROR|INTERNAL-ERROR|KNOWN)" | head -${LINES_MAX:-12}
  [ $c -ne 0 ] && rc=1
done
git -C /repo worktree remove --force "$wt"
exit $rc

#!/bin/bash
# usage: negtest_all.sh [parallelism]  — every behaviour-preserving control (selftest/neg, selftest/neg_agents, not the _not_yet_silent ones) must leave every check silent; prints those that do not
cd /verif
ls selftest/neg/*.diff selftest/neg_agents/*.diff | xargs -P "${1:-4}" -n 1 tools/negtest_one.sh | sort | tee /tmp/negtest_all.out
echo "controls that fire: $(grep -c . /tmp/negtest_all.out)"

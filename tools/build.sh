#!/bin/bash
# builds /verif/bin/sa (same command as MANIFEST.setup_cmd)
cd /verif/sa && GOFLAGS=-mod=mod GOPROXY=off GOSUMDB=off GOTOOLCHAIN=local GOWORK=off go build -o ../bin/sa ./cmd/sa

#!/usr/bin/env python3
"""usage: mkprompts.py <mutroot> <template prompt of another property> <template id> <id>...
Prepares <mutroot>/<id>/{wt,out,property.json} and <mutroot>/prompt_<id>.txt for a further round of independently written
breaking changes. The prompt carries only the property text and one-line summaries of the changes earlier rounds produced
(so that they are not repeated); nothing from /verif's checks."""
import json, os, subprocess, sys, glob, re
root, tmpl_path, tmpl_id = sys.argv[1:4]
ids = sys.argv[4:]
props = {json.loads(l)['id']: json.loads(l) for l in open('/verif/properties.jsonl')}
tmpl = open(tmpl_path).read()
head, _, _ = tmpl.partition('\n - ')
old_root = re.search(r'scratch git worktree of the project at: (\S+)/' + tmpl_id + '/wt', head).group(1)
for pid in ids:
    d = f'{root}/{pid}'
    os.makedirs(d + '/out', exist_ok=True)
    json.dump(props[pid], open(d + '/property.json', 'w'), indent=1)
    if not os.path.isdir(d + '/wt'):
        subprocess.check_call(['git', '-C', '/repo', 'worktree', 'add', '-q', '--detach', d + '/wt', 'HEAD'])
    h = head.replace(old_root, root).replace(tmpl_id, pid)
    h = h.replace(props[tmpl_id]['statement'], props[pid]['statement'])
    assert props[pid]['statement'] in h
    earlier = []
    for m in sorted(glob.glob(f'/verif/seeded/{pid}/m*/meta.json')) + sorted(glob.glob(f'/verif/seeded/_*/{pid}_*/meta.json')):
        s = json.load(open(m)).get('summary') or ''
        earlier.append(' - ' + ' '.join(s.split())[:420])
    open(f'{root}/prompt_{pid}.txt', 'w').write(h + '\n' + '\n'.join(earlier) + '\n')
    print(pid, len(earlier), 'earlier changes listed')

#!/usr/bin/env python3
"""usage: mkprompts.py <mutroot> <first k> <id>...
Prepares <mutroot>/<id>/{wt,out,property.json} and <mutroot>/prompt_<id>.txt for a further round of independently written
breaking changes. The prompt carries only the property's text and one-line summaries of the changes earlier rounds produced
(so that they are not repeated); nothing from /verif's checks, rules or design. The sub-agent is asked for two changes,
numbered m<first k> and m<first k + 1>."""
import json, os, subprocess, sys, glob
root, k0 = sys.argv[1], int(sys.argv[2])
ids = sys.argv[3:]
props = {json.loads(l)['id']: json.loads(l) for l in open('/verif/properties.jsonl')}
EXTRA = {}  # id -> extra one-line summaries (changes whose files were lost)
if os.path.exists('/verif/tools/lost_round10_summaries.json'):
    EXTRA = json.load(open('/verif/tools/lost_round10_summaries.json'))

TEMPLATE = """You are helping to evaluate how well an (undisclosed) verification effort protects one semantic property of the open-source project
worldcoin/semaphore-mtb: a Go service and gnark Groth16 circuits that prove batched Poseidon Merkle-tree insertions and deletions, with in-circuit
Keccak and Poseidon gadgets, an HTTP prover server, a CLI (main.go) and a Lean extraction of the circuits.

You have your own scratch git worktree of the project at: {wt}   (detached at the pinned commit). Work ONLY there and in {out}.
Do not read or touch /repo or /verif, and do not look for verification material anywhere: what you write must be independent of it.

THE PROPERTY ({pid}: {title})
{statement}

It must hold for: {quant}
Why the existing tests cannot settle it: {why}
Files it is anchored in: {files}

YOUR TASK: write TWO different changes to the project's non-test source, m{k0} and m{k1}, each of which BREAKS this property while
 (1) the project still compiles (`go build ./...` and `go test -vet=off -count=1 -run '^$' ./...`),
 (2) the existing test suite still passes (`go test -vet=off -count=1 ./...`; TestInsertionHappyPath, TestInsertionWrongInput and TestWrongMethod are
     known-flaky and not counted; every other test must pass), and
 (3) the breakage needs something SPECIFIC to manifest - a particular interleaving, a crash or fault at a particular point, a multi-step sequence of
     operations, an unusual input or dimension, or two cooperating sites that each look fine alone - NOT something ordinary use would expose at once.
Each change should look like a plausible maintenance commit a reviewer might wave through (a refactor, an optimisation, hardening, a small feature,
a library modernisation) and should be realistic, not an obviously planted bug. The two changes must use different mechanisms and preferably touch
different code. Read the code the property is anchored in first.

For each change also write a DEMONSTRATION: a Go test file (name it zz_demo{k0}_test.go / zz_demo{k1}_test.go, placed in whatever package it needs) or a
small program, which FAILS (non-zero exit) with the change applied and PASSES (exit 0) without it, runs offline, and takes well under five minutes
(keep circuits small: depth <= 4, batch <= 3; setup at depth 3 takes seconds). The demonstration must exercise the real code, not a copy of it.

Environment: no network at all. In every shell call first run:  export GOFLAGS=-mod=mod GOPROXY=off GOSUMDB=off GOTOOLCHAIN=local
The machine is shared with other agents doing the same for other properties: a full suite run takes 2-4 minutes, do not run it more often than you need.

DELIVERABLES, in {out}/ (for K = {k0} and {k1}):
  mK.patch.diff   `git diff` of the non-test source change only, against the pinned commit; it must apply with `git apply` to a clean checkout and
                  must NOT contain the demonstration file
  the demonstration file(s), under any name
  mK.meta.json    {{"summary": "<what the change does, as its commit message would describe it, plus where>",
                   "why_breaks": "<which clause of the property fails and why>",
                   "needs_to_manifest": "<the specific input / schedule / fault / sequence needed>",
                   "demo_files": [{{"src": "<file name in {out}>", "dest": "<path in the repository where it must be placed>"}}],
                   "demo_cmd": "<one shell command, run from the repository root, exit 0 without the change and non-zero with it>"}}
Before you finish, confirm for each change, starting from a clean checkout (`git checkout -- . && git clean -fdq`): the demonstration passes without the
change; with the change applied the project builds, the demonstration fails, and the suite passes. If you cannot make a change satisfy all of this,
replace it by another one rather than delivering it. In your final message give, per change, one paragraph: what it is and what you ran.

Earlier rounds already produced the following changes for this property. Do NOT repeat them or close variants of them - find different mechanisms,
in different places if you can:
"""

for pid in ids:
    p = props[pid]
    d = f'{root}/{pid}'
    os.makedirs(d + '/out', exist_ok=True)
    json.dump(p, open(d + '/property.json', 'w'), indent=1)
    if not os.path.isdir(d + '/wt'):
        subprocess.check_call(['git', '-C', '/repo', 'worktree', 'add', '-q', '--detach', d + '/wt', 'HEAD'])
    earlier = []
    for m in sorted(glob.glob(f'/verif/seeded/{pid}/m*/meta.json')) + sorted(glob.glob(f'/verif/seeded/_*/{pid}_*/meta.json')):
        s = json.load(open(m)).get('summary') or ''
        earlier.append(' - ' + ' '.join(s.split())[:420])
    for s in EXTRA.get(pid, []):
        earlier.append(' - ' + s)
    h = TEMPLATE.format(wt=d + '/wt', out=d + '/out', pid=pid, title=p['title'], statement=p['statement'], quant=p['quantifier']['text'],
                        why=p['why_tests_cant'], files=', '.join(p['anchors'].get('files', [])), k0=k0, k1=k0 + 1)
    open(f'{root}/prompt_{pid}.txt', 'w').write(h + '\n'.join(earlier) + '\n')
    print(pid, len(earlier), 'earlier changes listed')

#!/usr/bin/env python3
"""usage: claim.py <id> <technique> <text> <note>  — adds/updates a claimed check and regenerates MANIFEST.json"""
import json, sys, os, subprocess
V = os.path.dirname(os.path.dirname(os.path.abspath(__file__)))
p = os.path.join(V, "tools", "claims.json")
c = json.load(open(p))
pid, tech, text, note = sys.argv[1:5]
c["claimed"][pid] = {"technique": tech, "text": text, "note": note}
c["not_applicable"].pop(pid, None)
json.dump(c, open(p, "w"), indent=1)
subprocess.check_call([sys.executable, os.path.join(V, "tools", "mkmanifest.py")])

#!/usr/bin/env python3
"""Copies the sub-agent mutants that were re-validated here into /verif/seeded/<id>/m<k>/ with meta.json."""
import json, os, shutil, glob, sys
ROOT = os.environ.get('MUTROOT', '/tmp/mut')
OFFSET = int(os.environ.get('SEED_OFFSET', '0'))  # round 2: m1 -> m3
matrix = {}
for l in open(sys.argv[1]):
    name, caught = l.strip().split(': ')
    pid, k = name.split()
    matrix[(pid, k)] = [c for c in caught.split(',') if c and c != 'none']
n = 0
for vf in sorted(glob.glob(ROOT + '/*/out/m*.validated.json')):
    out = os.path.dirname(vf); pid = out.split('/')[-2]; k = os.path.basename(vf).split('.')[0]
    if (pid, k) not in matrix:
        continue  # not part of the round being installed
    v = json.load(open(vf))
    if not all([v['builds'], v['suite_passes_with_mutant'], v['demo_fails_with_mutant'], v['demo_passes_without_mutant']]):
        print('skip (not validated):', pid, k, v); continue
    meta = json.load(open(f'{out}/{k}.meta.json'))
    dst = f'/verif/seeded/{pid}/m{int(k[1:]) + OFFSET}'
    shutil.rmtree(dst, ignore_errors=True); os.makedirs(dst)
    shutil.copy(f'{out}/{k}.patch.diff', f'{dst}/patch.diff')
    demos = []
    for d in meta['demo_files']:
        os.makedirs(f'{dst}/demo', exist_ok=True)
        shutil.copy(f"{out}/{d['src']}", f"{dst}/demo/{os.path.basename(d['src'])}")
        demos.append({'file': 'demo/' + os.path.basename(d['src']), 'dest_in_repo': d['dest']})
    json.dump({
        'property': pid,
        'summary': meta.get('summary'),
        'why_breaks': meta.get('why_breaks'),
        'needs_to_manifest': meta.get('needs_to_manifest'),
        'demo_files': demos,
        'demo_cmd': meta.get('demo_cmd'),
        'origin': 'independent sub-agent given only the property text and a scratch worktree (nothing from /verif)',
        'confirmed_here': {
            'how': 'tools/validate_seed.sh: fresh scratch worktree of /repo HEAD; demo on clean tree; git apply patch; go build ./... and go test -run ^$ ./...; demo with the patch; full suite (go test -json -vet=off -count=1 ./...) with the patch in a private network namespace, compared with BASELINE.json stable_pass',
            'builds': v['builds'], 'existing_suite_passes_with_change': v['suite_passes_with_mutant'],
            'demo_fails_with_change': v['demo_fails_with_mutant'], 'demo_passes_without_change': v['demo_passes_without_mutant'],
        },
        'round': int(os.environ.get('ROUND', 2 if OFFSET else 1)),
        'caught_by_checks': matrix.get((pid, k), []),
        'caught_by_own_property_check': pid in matrix.get((pid, k), []),
        'checked_with': 'tools/matrix.sh (scratch worktree + ./bin/sa check-all)',
    }, open(f'{dst}/meta.json', 'w'), indent=1)
    n += 1
print('installed', n)

#!/usr/bin/env python3
"""usage: mkmut.py <out.diff> (<file> <old> <new>)...   — writes a unified diff replacing the first occurrence of old by new in /repo's file (HEAD content)."""
import sys, subprocess, tempfile, os, shutil
out = sys.argv[1]
args = sys.argv[2:]
tmp = tempfile.mkdtemp(prefix="mkmut.")
diffs = []
files = {}
for i in range(0, len(args), 3):
    f, old, new = args[i:i+3]
    src = files.get(f) or subprocess.check_output(["git", "-C", "/repo", "show", "HEAD:" + f])
    o, n = old.encode(), new.encode()
    if o not in src and o.replace(b"\n", b"\r\n") in src:
        o, n = o.replace(b"\n", b"\r\n"), n.replace(b"\n", b"\r\n")
    if o not in src:
        sys.exit(f"pattern not found in {f}: {old!r}")
    files[f] = src.replace(o, n, 1)
for f, dst in files.items():
    a = os.path.join(tmp, "a", f); b = os.path.join(tmp, "b", f)
    os.makedirs(os.path.dirname(a), exist_ok=True); os.makedirs(os.path.dirname(b), exist_ok=True)
    open(a, "wb").write(subprocess.check_output(["git", "-C", "/repo", "show", "HEAD:" + f])); open(b, "wb").write(dst)
    r = subprocess.run(["diff", "-u", "--label", "a/" + f, "--label", "b/" + f, a, b], capture_output=True)
    diffs.append(r.stdout)
os.makedirs(os.path.dirname(os.path.abspath(out)), exist_ok=True)
open(out, "wb").write(b"".join(diffs))
shutil.rmtree(tmp)

#!/bin/bash
# usage: selftest_all.sh [parallelism]  — every selftest/<id>/*.diff and seeded/<id>/*/patch.diff must make property <id>'s check fail; prints the misses.
cd /verif
ls selftest/C*/*.diff seeded/C*/*/patch.diff | xargs -P "${1:-4}" -n 1 tools/selftest_one.sh | tee /tmp/selftest_all.out
echo "misses: $(grep -c 'expected 1\|DOES-NOT-APPLY' /tmp/selftest_all.out)"

#!/bin/bash
# usage: selftest_all.sh  — every selftest/<id>/*.diff and seeded/<id>/*/patch.diff must make property <id>'s check fail; prints the misses.
cd /verif
miss=0
for f in selftest/C*/*.diff seeded/C*/*/patch.diff; do
  id=$(echo "$f" | cut -d/ -f2)
  wt=$(mktemp -d /tmp/st.XXXXXX)
  git -C /repo worktree add -q --detach "$wt" HEAD >/dev/null 2>&1
  if ! git -C "$wt" apply "/verif/$f" 2>/dev/null; then echo "$f: DOES-NOT-APPLY"; git -C /repo worktree remove --force "$wt"; continue; fi
  VERIF_REPO="$wt" VERIF_EVIDENCE_DIR="$wt/.evidence" ./bin/sa check "$id" >/dev/null 2>&1; c=$?
  [ $c -ne 1 ] && { echo "$f: exit=$c (expected 1)"; miss=$((miss+1)); }
  git -C /repo worktree remove --force "$wt"
done
echo "misses: $miss"

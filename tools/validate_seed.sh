#!/bin/bash
# usage: validate_seed.sh <property id> <k>
# Confirms a sub-agent's seeded change in a fresh scratch worktree: (1) builds, (2) existing suite passes with it (stable tests),
# (3) its demonstration fails with it, (4) the demonstration passes without it. Writes /tmp/mut/<id>/out/m<k>.validated.json.
set -u
id=$1; k=$2
out=${MUTROOT:-/tmp/mut}/$id/out
meta=$out/m$k.meta.json
patch=$out/m$k.patch.diff
export GOFLAGS=-mod=mod GOPROXY=off GOSUMDB=off GOTOOLCHAIN=local
wt=$(mktemp -d /tmp/vseed.$id.$k.XXXX)
git -C /repo worktree add -q --detach "$wt" HEAD || exit 2
res() { python3 - "$@" <<'PY'
import json,sys
out,k,builds,suite,dfail,dpass,notes=sys.argv[1:8]
json.dump({"builds":builds=="1","suite_passes_with_mutant":suite=="1","demo_fails_with_mutant":dfail=="1","demo_passes_without_mutant":dpass=="1","notes":notes},open(f"{out}/m{k}.validated.json","w"),indent=1)
PY
}
demo_cmd=$(python3 -c "import json;print(json.load(open('$meta'))['demo_cmd'])")
# copy demo files
python3 - "$meta" "$out" "$wt" <<'PY'
import json,sys,shutil,os
meta,out,wt=sys.argv[1:4]
m=json.load(open(meta))
for d in m["demo_files"]:
    dst=os.path.join(wt,d["dest"]); os.makedirs(os.path.dirname(dst),exist_ok=True)
    shutil.copy(os.path.join(out,d["src"]),dst)
PY
cd "$wt"
run() { unshare -rn bash -c "ip link set lo up; $1" ; }
# (4) demo passes without mutant
run "$demo_cmd" > $out/m$k.demo_clean.log 2>&1; dpass=$([ $? -eq 0 ] && echo 1 || echo 0)
# apply mutant
if ! git apply "$patch"; then res $out $k 0 0 0 $dpass "patch does not apply"; cd /; git -C /repo worktree remove --force "$wt"; exit 1; fi
# (in the private network namespace too: the root package's TestMain binds fixed ports even for -run '^$')
run "go build ./... && go test -vet=off -count=1 -run '^\$' ./..." > $out/m$k.build.log 2>&1; builds=$([ $? -eq 0 ] && echo 1 || echo 0)
# (3) demo fails with mutant
run "$demo_cmd" > $out/m$k.demo_mut.log 2>&1; dfail=$([ $? -ne 0 ] && echo 1 || echo 0)
# (2) suite with mutant, demo files removed
python3 - "$meta" "$wt" <<'PY'
import json,sys,os
m=json.load(open(sys.argv[1]))
for d in m["demo_files"]:
    os.remove(os.path.join(sys.argv[2],d["dest"]))
PY
run "go test -json -vet=off -count=1 -timeout 25m ./..." > $out/m$k.suite.json 2>&1
suite=$(python3 - $out/m$k.suite.json <<'PY'
import json,sys
base=json.load(open('/root/.vp/BASELINE.json'))
res={}
for l in open(sys.argv[1]):
    try: e=json.loads(l)
    except: continue
    if e.get('Action') in('pass','fail','skip') and e.get('Test'):
        res[e['Package']+'::'+e['Test']]=e['Action']
missing=[t for t in base['stable_pass'] if res.get(t)!='pass']
print(1 if not missing else 0)
PY
)
res $out $k $builds $suite $dfail $dpass ""
cd /; git -C /repo worktree remove --force "$wt"
cat $out/m$k.validated.json

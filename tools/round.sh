#!/bin/bash
# usage: round.sh <k>... -- <id>...   validates /tmp/mut/<id>/out/m<k>.* (validate_seed.sh, 3 at a time) and appends "<id> m<k>: <checks that fire>" to /tmp/mut/matrix.txt
ks=(); while [ "$1" != "--" ]; do ks+=("$1"); shift; done; shift
root=${MUTROOT:-/tmp/mut}
for id in "$@"; do for k in "${ks[@]}"; do
  [ -f $root/$id/out/m$k.patch.diff ] || { echo "$id m$k: no patch"; continue; }
  echo "$id $k"
done; done | grep -v "no patch" | xargs -P 3 -L 1 bash -c '/verif/tools/validate_seed.sh $0 $1 >/dev/null 2>&1; echo "validated $0 m$1: $(tr -d "\n " < '$root'/$0/out/m$1.validated.json)"'
for id in "$@"; do for k in "${ks[@]}"; do
  [ -f $root/$id/out/m$k.patch.diff ] || continue
  line=$(/verif/tools/matrix.sh $root/$id/out/m$k.patch.diff | sed 's/.*: //')
  grep -v "^$id m$k:" $root/matrix.txt > $root/matrix.tmp 2>/dev/null; mv $root/matrix.tmp $root/matrix.txt 2>/dev/null
  echo "$id m$k: $line" | tee -a $root/matrix.txt
done; done

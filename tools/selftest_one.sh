#!/bin/bash
# usage: selftest_one.sh <selftest/<id>/x.diff | seeded/<id>/m<k>/patch.diff>  — the patch must make property <id>'s check exit 1
cd /verif
f=$1
id=$(echo "$f" | cut -d/ -f2)
wt=$(mktemp -d /tmp/st.XXXXXX)
git -C /repo worktree add -q --detach "$wt" HEAD >/dev/null 2>&1
if ! git -C "$wt" apply "/verif/$f" 2>/dev/null; then echo "$f: DOES-NOT-APPLY"; git -C /repo worktree remove --force "$wt"; exit 0; fi
VERIF_REPO="$wt" VERIF_EVIDENCE_DIR="$wt/.evidence" ./bin/sa check "$id" >/dev/null 2>&1; c=$?
[ $c -ne 1 ] && echo "$f: exit=$c (expected 1)"
git -C /repo worktree remove --force "$wt"
exit 0

#!/usr/bin/env python3
"""Regenerates /verif/MANIFEST.json from the table in tools/claims.json (claimed checks) so the manifest always validates."""
import json, os, sys
V = os.path.dirname(os.path.dirname(os.path.abspath(__file__)))
claims = json.load(open(os.path.join(V, "tools", "claims.json")))
props = [json.loads(l) for l in open(os.path.join(V, "properties.jsonl"))]
ENV = "GOFLAGS=-mod=mod GOPROXY=off GOSUMDB=off GOTOOLCHAIN=local GOWORK=off"
checks, na = [], []
for p in props:
    pid = p["id"]
    c = claims["claimed"].get(pid)
    if c is None:
        na.append({"property_id": pid, "reason": claims["not_applicable"].get(pid, "no sound static check built for this property yet; nothing is claimed")})
        continue
    checks.append({
        "property_id": pid,
        "quick_cmd": f"./bin/sa check {pid} --tier quick",
        "thorough_cmd": f"./bin/sa check {pid} --tier thorough",
        "evidence_file": f"/verif/evidence/{pid}.json",
        "replay_cmd_template": "./bin/sa explain {path}",
        "engine": "sa",
        "level_claimed": {"category": "other", "text": c["text"], "design_ref": c.get("design_ref", f"DESIGN.md section 5, {pid}")},
        "level_note": c["note"],
        "technique": c["technique"],
    })
m = {
    "version": 1,
    "setup_cmd": f"cd /verif/sa && {ENV} go build -o ../bin/sa ./cmd/sa",
    "hooks": {
        "guard": "verif",
        "enable": "no hooks: the analyser reads /repo's sources as they are (nothing in /repo is built with a tag)",
        "baseline_off_cmd": "cd /repo && GOFLAGS=-mod=mod GOPROXY=off GOSUMDB=off go test -mod=mod -json -vet=off -count=1 -timeout 25m ./...",
        "source_commits": [],
        "add_only": True,
    },
    "engines": [{
        "name": "sa",
        "path": "/verif/sa",
        "serves_properties": [c["property_id"] for c in checks],
        "kind_free_text": "repository-specific static analyser on golang.org/x/tools v0.29.0: go/packages + go/ssa value-flow terms, go/cfg error-propagation and ordering rules, effect/lockset analysis over an in-repo call graph (VTA in the thorough tier), Lean-model/Go op-trace language inclusion",
    }],
    "checks": checks,
    "not_applicable": na,
    "notes": claims.get("notes", ""),
}
json.dump(m, open(os.path.join(V, "MANIFEST.json"), "w"), indent=1)
print(f"MANIFEST.json: {len(checks)} checks, {len(na)} not_applicable")
try:
    import jsonschema
    jsonschema.validate(m, json.load(open("/root/.vp/MANIFEST.schema.json")))
    print("schema: valid")
except ImportError:
    pass

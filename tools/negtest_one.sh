#!/bin/bash
# usage: negtest_one.sh <control.diff>  — prints the properties whose check is not silent on a behaviour-preserving control
cd /verif
f=$1
wt=$(mktemp -d /tmp/ng.XXXXXX)
git -C /repo worktree add -q --detach "$wt" HEAD >/dev/null 2>&1
if ! git -C "$wt" apply "/verif/$f" 2>/dev/null; then echo "$f: DOES-NOT-APPLY"; git -C /repo worktree remove --force "$wt"; exit 0; fi
out=$(VERIF_REPO="$wt" VERIF_EVIDENCE_DIR="$wt/.evidence" ./bin/sa check-all 2>&1)
fired=$(echo "$out" | awk '/^RESULT/ && $3!=0 {printf "%s%s", sep, $2 ($3==2?"(err)":""); sep=","}')
[ -z "$(echo "$out" | grep '^RESULT')" ] && fired="LOAD-ERROR"
base=$(basename "$f")
# x.<ids>only.diff: a control only for those properties
if [[ "$base" == *only.diff ]]; then
  scope=$(echo "$base" | sed -E 's/.*\.([A-Z0-9]+)only\.diff/\1/')
  keep=""; IFS=, read -ra arr <<< "$fired"; for p in "${arr[@]}"; do [[ "$scope" == *"${p%%(*}"* ]] && keep="$keep${keep:+,}$p"; done; fired=$keep
fi
[ -n "$fired" ] && echo "$f: $fired"
git -C /repo worktree remove --force "$wt"
exit 0
